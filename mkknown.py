#!/usr/bin/env python3
"""Renders KNOWN_FINDINGS.txt from KNOWN_FINDINGS.tmpl: @{subject prefix} -> short commit hash in /repo."""
import re, subprocess
def sha(m):
    out = subprocess.run(["git","-C","/repo","log","--format=%h","--fixed-strings","--grep="+m.group(1)],capture_output=True,text=True).stdout.split()
    assert len(out)==1,(m.group(1),out)
    return out[0]
s=open('/verif/KNOWN_FINDINGS.tmpl').read()
open('/verif/KNOWN_FINDINGS.txt','w').write(re.sub(r'@\{([^}]*)\}',sha,s))
print("KNOWN_FINDINGS.txt written")
