#!/usr/bin/env python3
"""Regenerates MANIFEST.json from the table below (keeps it schema-valid)."""
import json, subprocess

CHECKS = {
 "C01": dict(tech="runtime monitoring: crash/exit-status monitor, parser-iteration and reduce-progress assertions at hooks, step-budget sanitizer (tick-instrumented overlay build), growth-exponent monitor, %! marker scan over exhaustive token sequences + feedback fuzzing + scaling families + dictionaries and sizes harvested from the tree under test; every guarded helper call runs under the step budget too",
   text="Every input explored was driven through all six entry points (without a default field, with an unused one and with fields of the query itself as default field) under recover, a deterministic logical step budget and hook assertions; held = no panic, process death, budget overrun, non-progress reduce, super-polynomial growth or %! marker on the executions listed in the evidence. Polynomial time is decided as a step bound up to the stated sizes, not asymptotically.",
   note="Trusts the Go runtime's panic/exit reporting, the go/ast overlay instrumentation (ticks at every function entry and loop head of the repository's non-test files) and the 240 s single-case stall watchdog for loops outside instrumented code.", ref="5/C01"),
 "C05": dict(tech="runtime monitoring: print-parse-compare oracle (independent precedence-table printer vs public constructors and vs a constructor-free normal form) over an exhaustive depth<=2 tree space and random deeper trees",
   text="Every tree of depth <= 2 over the leaf alphabet (exhaustive) and seeded deeper trees, printed in six styles by the harness' own printer of the documented table, parsed by the real parser and compared with reflect.DeepEqual against the tree built with the public constructors and, independently of those constructors, normal form against normal form (qt.Canon vs oracle.CanonExpr); also chains of up to 1200 clauses, related-parts trees and random field groups.",
   note="The printer is the harness' reading of the documented precedence table; trees deeper than 2 are sampled.", ref="5/C05"),
 "C10": dict(tech="runtime monitoring: result-tuple inspection, expr.Validate and an independent shape walk on every accepted tree over exhaustive token sequences + feedback fuzzing",
   text="Result tuples of Parse/ToPostgres/ToParameterizedPostgres inspected and every accepted tree validated and shape-checked on all token sequences up to length L over five alphabets, depth<=2 trees, fragments, hostile and related-parts inputs, fuzzed inputs and value lists of up to 100000 members.",
   note="Shape walk is the harness' own statement of well-formedness (fields single terms, range bounds single terms, lists >= 2 plain values, unary one operand, LIKE has a pattern).", ref="5/C10"),
 "C16": dict(tech="runtime monitoring: cursor-walk losslessness oracle, end-stickiness, error-cause recomputation, independent character-class models for token starts / word tokens / delimited tokens, and twin-lexer Peek purity over exhaustive short byte strings, every Unicode code point, punctuation pairs + fuzzing",
   text="Every byte string up to length 3/4 over a 40-byte alphabet (exhaustive) plus hostile and fuzzed inputs lexed by the real lexer; token texts must tile the input, errors must have one of the three stated causes, Peek must be pure and Parse must fail on lexical errors.",
   note="The sets of runes that may start a token and continue a word, and the delimiter rules of quoted and regexp tokens, are restated in the harness.", ref="5/C16"),

  "C06": dict(tech="runtime monitoring: derivation recogniser (memoised CYK-style oracle over the real lexer's tokens, each token's kind re-derived from its text, with independently typed terms) on every accepted input, decoded into fresh values and into values that already hold another expression of exhaustive token sequences, edits of printed trees and feedback fuzzing",
   text="For every accepted input explored the returned tree was laid over the real token sequence as a derivation in the documented grammar (typed terms, operators consumed once, brackets around non-empty groups); the token-sequence space up to length L is exhaustive, so acceptance of non-queries is decided completely up to L.",
   note="The recogniser and the term typing are the harness' own statement of the documented grammar; precedence is not part of it (C05).", ref="5/C06"),
  "C07": dict(tech="runtime monitoring: metamorphic pair oracle (juxtaposed vs explicit AND texts of the same tree) with the ImplicitAnd hook as witness, over exhaustive depth<=2 trees, AND chains of up to 2049 (8193) operands, related-parts trees, escaped-edge values and random trees, without and with a default field",
   text="For every tree explored and every subset of its juxtaposable AND nodes, the juxtaposed and the explicit text parse to DeepEqual trees (or both fail); the hook confirms every written juxtaposition was really injected.",
   note="An AND is not juxtaposable when its left operand's text ends in a bare ~ or ^ (the next term is then that operator's argument by the grammar E~E).", ref="5/C07"),
  "C09": dict(tech="runtime monitoring: metamorphic layout oracle (whitespace refill/removal, keyword case subsets, redundant parentheses at the three stated places) over exhaustive token sequences and depth<=2 trees",
   text="Pairs (base, layout variant) parsed by the real parser; accept/accept pairs must be DeepEqual, and for whitespace and keyword case the variant must fail whenever the base fails.",
   note="Whitespace is only removed next to a symbol token other than '-' or next to a quoted / regexp token (otherwise tokens would legitimately merge); also 3…128 redundant parenthesis pairs, chains of up to 1200 units in three layouts, and every kind of last token with and without trailing whitespace.", ref="5/C09"),
  "C11": dict(tech="runtime monitoring: differential oracle Parse(q, f) vs Parse(q) with field erasure and a bare-term walk over exhaustive token sequences, trees and fuzzed inputs",
   text="For every input explored, parsing with an unused default field must accept the same inputs, erase back to the plain tree and leave no bare term as an operand or root.",
   note="Seven default-field spellings that cannot occur in the generated queries plus ~400 hostile and generated names; the unused-field rule is decided on the parsed tree; every fourth case is re-parsed after the related texts f:q and f:(q).", ref="5/C11"),
  "C12": dict(tech="runtime monitoring: JSON round-trip oracle (Marshal/Unmarshal/Validate/re-encode/String/Render/RenderParam/DeepEqual with an independent leaf-kind inference predicate) on every accepted input",
   text="Every accepted valid-UTF-8 input explored is encoded, decoded, validated, re-encoded byte-identically, printed and rendered identically; DeepEqual is demanded when each leaf has the kind inferred from its JSON text; exceptions are counted.",
   note="Parameters are compared by value (an integer-valued float and the equal int count as the same parameter).", ref="5/C12"),
  "C13": dict(tech="runtime monitoring: crash monitor (recover + worker exit status) over schema-aware generated, mutated and edge-case JSON documents; second clause exercised only on documents that pass Validate",
   text="No panic or process death decoding any generated document; every document that decodes and validates went through String, %#v, Marshal, Render and RenderParam without a panic.",
   note="Nothing about the content of results is demanded; a run with < 5% validated documents is inconclusive.", ref="5/C13"),
  "C15": dict(tech="runtime monitoring: call-log replay of a tracing function map against the tree (fold order, arguments), a second tracer whose results depend on operator and arguments only, per-operator override / empty-result / removal differentials, hand-built, re-typed and JSON-decoded trees, package-level renderers on fuzzy/boost queries",
   text="driver.Base with tracing functions on every tree explored: one call per node, bottom-up, children's results as arguments; overriding one operator changes only its nodes; a missing function gives an error and no partial text; ~/^ queries fail in both package-level renderers.",
   note="Leaf functions' raw-value argument format is not checked (C02's business).", ref="5/C15"),
  "C02": dict(tech="runtime monitoring: PostgreSQL's own parser (libpg_query) as observer of every rendered text + node-kind whitelist + provenance sets, over hostile dictionaries, exhaustive token sequences and feedback fuzzing",
   text="Every successful render explored is re-parsed by PostgreSQL's grammar inside SELECT 1 FROM t WHERE (<text>): exactly one statement, only the WHERE clause populated, no comment tokens, only whitelisted constructs, every column a field of the query and every string constant a value of the query.",
   note="libpg_query v15 grammar/scanner defaults (standard_conforming_strings on); provenance (admissible columns and string constants) is computed from the query's tokens with the harness' own term decoding, not from the parsed tree.", ref="5/C02"),
  "C03": dict(tech="runtime monitoring: translation check of each rendered query against a reference evaluator on probe rows (leaf layer), propositional truth-table equivalence of the SQL PostgreSQL reads vs the query structure over leaf SQL (composition layer), end-to-end row evaluation",
   text="Leaf classes enumerated exhaustively with seeded values and compared with the query's meaning on probe rows; compounds checked by full truth tables over atoms and, when all leaves are clean, on rows. Known leaf defects are listed by signature in KNOWN_FINDINGS.txt.",
   note="Two-valued typed model on non-NULL rows, exact rationals, bytewise string order, SIMILAR TO via anchored regexp; SQL read by libpg_query.", ref="5/C03"),
  "C04": dict(tech="runtime monitoring: differential oracle inline vs parameterized (placeholder scanner, ground-truth value list, IR equality after substitution or probe-row agreement) plus same-kind value substitution metamorphic test",
   text="For every renderable tree explored: parameterized succeeds when inline does, placeholders = parameters = the generator's values in order with kinds, substituted parameterized SQL is the same predicate as the inline SQL, and the SQL text is invariant under same-kind value substitution.",
   note="A bare wildcard term (no field) is not a pattern match and keeps its text in both modes.", ref="5/C04"),
  "C08": dict(tech="runtime monitoring: identity oracle on generator-chosen strings through the tree, PostgreSQL's string-literal decoder (libpg_query) and the parameter list, in 8 syntactic positions and two spellings",
   text="Every string explored, quoted and (when eligible) fully escaped, must arrive byte for byte in the tree, in the constants PostgreSQL decodes from the inline SQL and in the parameters.",
   note="Values with NUL or invalid UTF-8 cannot be SQL text; their rejection by the renderer is counted, not a violation.", ref="5/C08"),
  "C14": dict(tech="runtime monitoring: Go race detector (-race build, yield-only hook sinks) over concurrent operation scripts on shared driver and shared expressions; result comparison with a sequential baseline; twin-expression and snapshot immutability checks; cold-start and call-sequence purity phases; overlap accounting",
   text="2/8/64 goroutines x GOMAXPROCS 2/4/16 run seeded scripts of 16 operations (shared option values and option slices included) over shared expressions (parsed, constructor-built and decoded) and the package-level driver under the race detector; any race report, any result differing from the sequential baseline, any nondeterministic repeat and any modified expression is a violation. Interleavings are those the scheduler produced (overlapping operation pairs are counted).",
   note="The race detector only sees executed interleavings; overlap accounting runs in separate configurations because its atomics add synchronisation.", ref="5/C14"),
}
NOT_YET = {
}

def main():
    hooks_commits = subprocess.run(["git","-C","/repo","log","--format=%H","--grep=^verif hooks"],capture_output=True,text=True).stdout.split()
    m = {
     "version": 1,
     "setup_cmd": "./run.sh setup",
     "hooks": {
       "guard": "verif",
       "enable": "go build -tags verif (through /verif/harness/go.mod, replace github.com/grindlemire/go-lucene => /repo); sinks in harness/mon",
       "baseline_off_cmd": "for m in . ./fuzz; do (cd /repo/$m && go test -vet=off -count=1 ./...) || exit 1; done",
       "source_commits": hooks_commits,
       "add_only": True,
     },
     "engines": [
       {"name":"vcheck","path":"harness/cmd/vcheck","serves_properties":[k for k in sorted(CHECKS) if k not in("C01","C14")],"kind_free_text":"supervisor + single-threaded worker processes running generated workloads against the library built from /repo with hooks on; monitors and reference models in harness/oracle, harness/props"},
       {"name":"vtick","path":"tick.sh + harness/cmd/instrument","serves_properties":["C01"],"kind_free_text":"vcheck built with a go build -overlay that inserts a step counter at every function entry and loop head of the repository (step-budget sanitizer)"},
       {"name":"vrace","path":"harness/cmd/vrace","serves_properties":["C14"],"kind_free_text":"race-detector build driving concurrent operation scripts over shared expressions"},
     ],
     "checks": [],
     "not_applicable": [],
     "notes": "All checks are runtime monitors over executions of the real code built from /repo's working tree; see DESIGN.md. Exit 3 + INCONCLUSIVE line = infrastructure/floor failure (never folded into held or violated).",
    }
    for pid in sorted(CHECKS):
        c = CHECKS[pid]
        m["checks"].append({
          "property_id": pid,
          "quick_cmd": f"./run.sh {pid} quick",
          "thorough_cmd": f"./run.sh {pid} thorough",
          "evidence_file": f"evidence/{pid}.json",
          "replay_cmd_template": "./run.sh replay {path}",
          "engine": "vtick" if pid=="C01" else ("vrace" if pid=="C14" else "vcheck"),
          "level_claimed": {"category": c.get("level","exploration"), "text": c["text"], "design_ref": c["ref"]},
          "level_note": c["note"],
          "technique": c["tech"],
        })
    allp = [json.loads(l)["id"] for l in open("/verif/properties.jsonl")]
    for pid in allp:
        if pid not in CHECKS:
            m["not_applicable"].append({"property_id": pid, "reason": NOT_YET.get(pid, "check not built yet (work in progress); the runtime-monitoring design for it is in DESIGN.md section 5")})
    json.dump(m, open("/verif/MANIFEST.json","w"), indent=1)
    print("wrote MANIFEST.json with", len(m["checks"]), "checks")

main()
