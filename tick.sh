#!/bin/bash
# tick.sh build <output binary>: builds vcheck with the step-sanitizer overlay generated from
# the current working tree of $VERIF_REPO (default /repo).
set -u
VERIF_DIR="$(cd "$(dirname "$0")" && pwd)"
cd "$VERIF_DIR/harness" || exit 3
export GOFLAGS=-mod=mod GOPROXY=off GOSUMDB=off GOTOOLCHAIN=local GOWORK=off CGO_ENABLED=1
REPO="${VERIF_REPO:-/repo}"
[ "${1:-}" = build ] || { echo "usage: tick.sh build <out>"; exit 2; }
OUT="$2"
OV="$VERIF_DIR/build/overlay-$$"
rm -rf "$OV"; mkdir -p "$OV"
trap 'rm -rf "$OV" "$VERIF_DIR/build/tickalt-$$.mod" "$VERIF_DIR/build/tickalt-$$.sum"' EXIT
MODARGS=()
if [ "$REPO" != "/repo" ]; then
  sed "s#=> /repo#=> $REPO#" go.mod > "$VERIF_DIR/build/tickalt-$$.mod"
  cp go.sum "$VERIF_DIR/build/tickalt-$$.sum"
  MODARGS=(-modfile="$VERIF_DIR/build/tickalt-$$.mod")
fi
go run "${MODARGS[@]}" ./cmd/instrument "$REPO" "$OV" > "$OV/instrument.log" 2>&1 || { echo "instrumentation failed"; cat "$OV/instrument.log"; exit 1; }
go build "${MODARGS[@]}" -overlay "$OV/overlay.json" -tags "verif vtick" -o "$OUT" ./cmd/vcheck 2> "$OV/build.log" || { echo "overlay build failed"; cat "$OV/build.log"; exit 1; }
exit 0
