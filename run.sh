#!/bin/bash
# Entry point of every registered check.
#   ./run.sh setup                 build all binaries once (warms the Go build cache, incl. cgo libpg_query)
#   ./run.sh <Cnn> quick|thorough  rebuild from /repo's working tree (hooks on) and run the check
#   ./run.sh replay <file>         re-execute one recorded case
# VERIF_REPO=<dir> points the build at another copy of the repository (mutant validation).
set -u
VERIF_DIR="$(cd "$(dirname "$0")" && pwd)"
cd "$VERIF_DIR/harness" || exit 3
export GOFLAGS=-mod=mod GOPROXY=off GOSUMDB=off GOTOOLCHAIN=local GOWORK=off
export CGO_ENABLED=1
REPO="${VERIF_REPO:-/repo}"
BIN="$VERIF_DIR/build/bin"
mkdir -p "$BIN"
MODARGS=()
if [ "$REPO" != "/repo" ]; then
  MF="$VERIF_DIR/build/alt-$$.mod"
  sed "s#=> /repo#=> $REPO#" go.mod > "$MF"
  cp go.sum "$VERIF_DIR/build/alt-$$.sum"
  MODARGS=(-modfile="$MF")
  export VERIF_EVIDENCE_DIR="$VERIF_DIR/build/evidence-scratch"
fi
cleanup() { rm -f "$BIN"/*-$$ "$VERIF_DIR/build/alt-$$.mod" "$VERIF_DIR/build/alt-$$.sum" "$VERIF_DIR/build/harvest-$$.json"; }
trap cleanup EXIT

build() { # name pkg extra-flags...
  local name="$1" pkg="$2"; shift 2
  if ! go build "${MODARGS[@]}" -tags verif "$@" -o "$BIN/$name-$$" "$pkg" 2> "$BIN/$name-$$.log"; then
    echo "BUILD-FAILED $name"; cat "$BIN/$name-$$.log"; rm -f "$BIN/$name-$$.log"
    return 1
  fi
  rm -f "$BIN/$name-$$.log"
}

# constants of the tree under test (string and integer literals) for the dictionaries and size lists
harvest() {
  if go build "${MODARGS[@]}" -o "$BIN/harvest-$$" ./cmd/harvest 2>/dev/null && "$BIN/harvest-$$" "$REPO" > "$VERIF_DIR/build/harvest-$$.json" 2>/dev/null; then
    export VERIF_HARVEST="$VERIF_DIR/build/harvest-$$.json"
  fi
}

cmd="${1:-}"
case "$cmd" in
  setup)
    build vcheck ./cmd/vcheck || exit 3
    if [ -d cmd/vrace ]; then build vrace ./cmd/vrace -race || exit 3; fi
    VERIF_REPO="$REPO" "$VERIF_DIR/tick.sh" build "$BIN/vtick-$$" || exit 3
    echo "setup ok"
    exit 0
    ;;
  replay)
    harvest
    build vcheck ./cmd/vcheck || exit 3
    f="${2:?replay file}"
    if grep -q '"property": "C14"' "$f" 2>/dev/null; then
      build vrace ./cmd/vrace -race || exit 3
      exec "$BIN/vrace-$$" -replay "$f" -verif "$VERIF_DIR"
    fi
    "$BIN/vcheck-$$" -replay "$f" -verif "$VERIF_DIR"
    exit $?
    ;;
  C[0-9][0-9])
    prop="$cmd"; tier="${2:-quick}"
    seed="${VERIF_SEED:-0}"
    harvest
    case "$prop" in
      C14)
        build vrace ./cmd/vrace -race || { echo "INCONCLUSIVE property=$prop reason=build-failed"; exit 3; }
        "$BIN/vrace-$$" -prop C14 -tier "$tier" -seed "$seed" -verif "$VERIF_DIR"
        exit $?
        ;;
      C01)
        VERIF_REPO="$REPO" "$VERIF_DIR/tick.sh" build "$BIN/vtick-$$" || { echo "INCONCLUSIVE property=$prop reason=tick-build-failed"; exit 3; }
        "$BIN/vtick-$$" -prop C01 -tier "$tier" -seed "$seed" -verif "$VERIF_DIR"
        exit $?
        ;;
      *)
        build vcheck ./cmd/vcheck || { echo "INCONCLUSIVE property=$prop reason=build-failed"; exit 3; }
        "$BIN/vcheck-$$" -prop "$prop" -tier "$tier" -seed "$seed" -verif "$VERIF_DIR"
        exit $?
        ;;
    esac
    ;;
  *)
    echo "usage: $0 setup | <Cnn> quick|thorough | replay <file>"; exit 2;;
esac
