// Package mon holds the sinks for the repository's verif hooks. Workers are single threaded
// so the sinks are plain globals; vrace installs its own yield-only sinks instead.
package mon

import (
	"github.com/grindlemire/go-lucene/internal/lex"
	"github.com/grindlemire/go-lucene/internal/verifhook"
)

// ReducerNames mirrors the order of reduce.reducers.
var ReducerNames = []string{"and", "or", "equal", "compare", "compareEq", "not", "sub", "must", "mustNot", "fuzzy", "boost", "rangeop"}

var (
	// ReducerHist counts reducer firings by index.
	ReducerHist [32]int64
	// ImplicitAnds counts injected ANDs.
	ImplicitAnds int64
	// per-parse state
	Iters       int64
	Shifts      int64
	Reduces     int64
	BadReduce   string // set when a reduce did not shrink the stack
	RenderNodes int64
	// Trace, when non-nil, receives a compact event trace (fuzzer feedback).
	Trace func(ev int)
)

// Install sets the hook sinks.
func Install() {
	verifhook.OnParseIter = func(stackLen, nt int) {
		Iters++
	}
	verifhook.OnShift = func(typ int, terminal bool) {
		Shifts++
		if Trace != nil {
			Trace(100 + typ)
		}
	}
	verifhook.OnImplicitAnd = func() {
		ImplicitAnds++
		if Trace != nil {
			Trace(99)
		}
	}
	verifhook.OnReduce = func(before, after int) {
		Reduces++
		if after >= before && BadReduce == "" {
			BadReduce = "a successful reduce left the stack at " + itoa(after) + " elements, was " + itoa(before)
		}
	}
	verifhook.OnReducer = func(i int) {
		if i >= 0 && i < len(ReducerHist) {
			ReducerHist[i]++
		}
		if Trace != nil {
			Trace(200 + i)
		}
	}
	verifhook.OnRender = func(op int, param bool) {
		RenderNodes++
		if Trace != nil {
			if param {
				Trace(400 + op)
			} else {
				Trace(300 + op)
			}
		}
	}
}

// BeginParse resets the per-parse counters.
func BeginParse() {
	Iters, Shifts, Reduces, BadReduce = 0, 0, 0, ""
}

// CountTokens lexes the input with the real lexer and returns the number of tokens before
// the end (or the error) and whether the stream ended in an error.
func CountTokens(in string) (n int, lexErr bool) {
	l := lex.Lex(in)
	for i := 0; i <= len(in)+1; i++ {
		t := l.Next()
		if t.Typ == lex.TEOF {
			return n, false
		}
		if t.Typ == lex.TErr {
			return n, true
		}
		n++
	}
	return n, false
}

func itoa(i int) string {
	if i == 0 {
		return "0"
	}
	neg := i < 0
	if neg {
		i = -i
	}
	b := []byte{}
	for i > 0 {
		b = append([]byte{byte('0' + i%10)}, b...)
		i /= 10
	}
	if neg {
		return "-" + string(b)
	}
	return string(b)
}
