package oracle

import (
	"math"
	"strconv"
	"strings"
	"unicode"
	"unicode/utf8"

	"github.com/grindlemire/go-lucene/internal/lex"
	"github.com/grindlemire/go-lucene/pkg/lucene/expr"
)

// Tok is a token of the real lexer.
type Tok struct {
	Typ lex.TokType
	Val string
}

// Lex returns the token stream of the real lexer (without the final EOF) and whether it ended
// in a lexical error.
func Lex(in string) (toks []Tok, lexErr bool) {
	l := lex.Lex(in)
	for i := 0; i <= len(in)+1; i++ {
		t := l.Next()
		if t.Typ == lex.TEOF {
			return toks, false
		}
		if t.Typ == lex.TErr {
			return toks, true
		}
		toks = append(toks, Tok{t.Typ, t.Val})
	}
	return toks, false
}

var symbolKinds = map[string]lex.TokType{"(": lex.TLParen, ")": lex.TRParen, "[": lex.TLSquare, "]": lex.TRSquare, "{": lex.TLCurly, "}": lex.TRCurly,
	":": lex.TColon, "+": lex.TPlus, "=": lex.TEqual, ">": lex.TGreater, "<": lex.TLess, "~": lex.TTilde, "^": lex.TCarrot, "-": lex.TMinus}

// KindOfText is the harness' own reading of what kind of token a piece of query text is,
// decided from the text alone: a symbol is exactly its character, a keyword is its ASCII
// spelling in any letter case, a phrase starts with a quote, a regexp with a slash, and
// everything else that starts with a word character, a wildcard, a backslash or a minus sign
// followed by a digit is a term. ok is false for text that is no token at all.
func KindOfText(v string) (k lex.TokType, ok bool) {
	if v == "" {
		return 0, false
	}
	if k, isSym := symbolKinds[v]; isSym {
		return k, true
	}
	switch v[0] {
	case '"', '\'':
		return lex.TQuoted, true
	case '/':
		return lex.TRegexp, true
	}
	if len(v) <= 3 {
		up := []byte(v)
		for i, c := range up {
			if c >= 'a' && c <= 'z' {
				up[i] = c - 'a' + 'A'
			}
		}
		switch string(up) {
		case "AND":
			return lex.TAnd, true
		case "OR":
			return lex.TOr, true
		case "NOT":
			return lex.TNot, true
		case "TO":
			return lex.TTO, true
		}
	}
	r, _ := utf8.DecodeRuneInString(v)
	if r == '_' || r == '*' || r == '?' || r == '\\' || unicode.IsLetter(r) || unicode.IsDigit(r) {
		return lex.TLiteral, true
	}
	if r == '-' && len(v) > 1 {
		if d, _ := utf8.DecodeRuneInString(v[1:]); unicode.IsDigit(d) {
			return lex.TLiteral, true
		}
	}
	return 0, false
}

// IsTermTok reports whether the token is a term.
func IsTermTok(t Tok) bool {
	return t.Typ == lex.TLiteral || t.Typ == lex.TQuoted || t.Typ == lex.TRegexp
}

// Typed is the harness' own decoding of a term token: the operator kind and the value.
type Typed struct {
	Op  expr.Operator
	Val any // string, int or float64
}

// Unescape drops each escaping backslash and keeps the rune it escapes.
func Unescape(s string) string {
	out := make([]byte, 0, len(s))
	esc := false
	for i := 0; i < len(s); i++ {
		if !esc && s[i] == '\\' {
			esc = true
			continue
		}
		esc = false
		out = append(out, s[i])
	}
	return string(out)
}

func hasUnescapedWildcard(s string) bool {
	esc := false
	for i := 0; i < len(s); i++ {
		switch {
		case esc:
			esc = false
		case s[i] == '\\':
			esc = true
		case s[i] == '*' || s[i] == '?':
			return true
		}
	}
	return false
}

// TypedValue decodes a term token.
func TypedValue(t Tok) Typed {
	switch t.Typ {
	case lex.TQuoted:
		if len(t.Val) >= 2 && t.Val[0] == '"' {
			return Typed{expr.Literal, t.Val[1 : len(t.Val)-1]}
		}
		// single-quoted tokens keep their quotes (pinned by the repository's escape_quotes test);
		// double quotes inside them are dropped
		return Typed{expr.Literal, strings.ReplaceAll(t.Val, `"`, "")}
	case lex.TRegexp:
		return Typed{expr.Regexp, t.Val}
	}
	if i, err := strconv.Atoi(t.Val); err == nil {
		return Typed{expr.Literal, i}
	}
	if f, err := strconv.ParseFloat(t.Val, 64); err == nil && !math.IsNaN(f) && !math.IsInf(f, 0) {
		return Typed{expr.Literal, f}
	}
	if hasUnescapedWildcard(t.Val) {
		return Typed{expr.Wild, t.Val}
	}
	return Typed{expr.Literal, Unescape(t.Val)}
}

// MatchesTerm reports whether expression x is exactly the term the token denotes.
func MatchesTerm(x any, t Tok) bool {
	e, ok := x.(*expr.Expression)
	if !ok || e == nil || !IsTermTok(t) || e.Right != nil {
		return false
	}
	tv := TypedValue(t)
	return e.Op == tv.Op && e.Left == tv.Val
}

// MatchesField reports whether x is what the token denotes in field position: a string-like
// term becomes a column, a number stays a number.
func MatchesField(x any, t Tok) bool {
	e, ok := x.(*expr.Expression)
	if !ok || e == nil || !IsTermTok(t) || e.Right != nil || e.Op != expr.Literal {
		return false
	}
	tv := TypedValue(t)
	if s, isStr := tv.Val.(string); isStr {
		return e.Left == expr.Column(s)
	}
	return e.Left == tv.Val
}
