package oracle

import (
	"encoding/json"

	"github.com/grindlemire/go-lucene/pkg/lucene/expr"
)

// fuzzyBoostArgs observes the distance/power of a fuzzy/boost node through its public JSON
// encoding (the fields themselves are unexported): a shallow copy with a trivial operand is
// encoded and the "distance"/"power" members are read back; absent means the default 1.
func fuzzyBoostArgs(e *expr.Expression) (dist int, power float64) {
	c := *e
	c.Left = expr.Lit("x")
	c.Right = nil
	dist, power = 1, 1.0
	b, err := json.Marshal(c)
	if err != nil {
		return
	}
	var m struct {
		Distance *int     `json:"distance"`
		Power    *float64 `json:"power"`
	}
	if json.Unmarshal(b, &m) != nil {
		return
	}
	if m.Distance != nil && e.Op == expr.Fuzzy {
		dist = *m.Distance
	}
	if m.Power != nil && e.Op == expr.Boost {
		power = *m.Power
	}
	return
}

// FuzzyBoostArgs exposes the distance and power of an expression.
func FuzzyBoostArgs(e *expr.Expression) (int, float64) { return fuzzyBoostArgs(e) }
