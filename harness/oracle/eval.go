package oracle

import (
	"errors"
	"fmt"
	"math/big"
	"math/rand"
	"regexp"
	"sort"
	"strconv"
	"strings"

	"github.com/grindlemire/go-lucene/verif/qt"
)

// Val is a non-NULL column value: a number (exact rational) or a string (bytes).
type Val struct {
	IsNum bool
	Num   *big.Rat
	Str   string
}

func (v Val) String() string {
	if v.IsNum {
		return v.Num.RatString()
	}
	return strconv.Quote(v.Str)
}

// Row maps column names to values.
type Row map[string]Val

// ErrUntyped marks comparisons the two-valued, typed model does not define.
var ErrUntyped = errors.New("comparison between a number and a string")

func cmpVals(a, b Val) (int, error) {
	if a.IsNum != b.IsNum {
		return 0, ErrUntyped
	}
	if a.IsNum {
		return a.Num.Cmp(b.Num), nil
	}
	return strings.Compare(a.Str, b.Str), nil
}

func eqVals(a, b Val) bool {
	if a.IsNum != b.IsNum {
		return false
	}
	c, _ := cmpVals(a, b)
	return c == 0
}

var reCache = map[string]*regexp.Regexp{}

func compileCached(src string) (*regexp.Regexp, error) {
	if re, ok := reCache[src]; ok {
		if re == nil {
			return nil, errors.New("bad regexp")
		}
		return re, nil
	}
	re, err := regexp.Compile(src)
	if len(reCache) > 20000 {
		reCache = map[string]*regexp.Regexp{}
	}
	if err != nil {
		reCache[src] = nil
		return nil, err
	}
	reCache[src] = re
	return re, nil
}

// SimilarToRegexp translates an SQL SIMILAR TO pattern into an anchored Go regexp.
func SimilarToRegexp(p string) (*regexp.Regexp, error) {
	var b strings.Builder
	b.WriteString("(?s)^(?:")
	rs := []rune(p)
	for i := 0; i < len(rs); i++ {
		r := rs[i]
		switch r {
		case '%':
			b.WriteString(".*")
		case '_':
			b.WriteString(".")
		case '\\':
			if i+1 < len(rs) {
				i++
				b.WriteString(regexp.QuoteMeta(string(rs[i])))
			} else {
				b.WriteString(`\\`)
			}
		case '|', '*', '+', '?', '{', '}', '(', ')', '[', ']':
			b.WriteRune(r)
		default:
			b.WriteString(regexp.QuoteMeta(string(r)))
		}
	}
	b.WriteString(")$")
	return compileCached(b.String())
}

// WildcardRegexp translates a Lucene wildcard (* any run, ? any one character, every other
// character literal) into an anchored Go regexp.
func WildcardRegexp(p string) (*regexp.Regexp, error) {
	var b strings.Builder
	b.WriteString("(?s)^(?:")
	for _, r := range p {
		switch r {
		case '*':
			b.WriteString(".*")
		case '?':
			b.WriteString(".")
		default:
			b.WriteString(regexp.QuoteMeta(string(r)))
		}
	}
	b.WriteString(")$")
	return compileCached(b.String())
}

// Opaque decides the truth of atoms the model cannot evaluate (a constant in boolean position,
// a regular expression Go cannot compile); it must be a function of the key and the row.
type Opaque func(key string) bool

func irVal(x *IR, row Row) (Val, error) {
	switch x.Kind {
	case ICol:
		v, ok := row[x.Col]
		if !ok {
			return Val{}, fmt.Errorf("column %q is not in the probe row", x.Col)
		}
		return v, nil
	case INum:
		return Val{IsNum: true, Num: x.Num}, nil
	case IStr:
		return Val{Str: x.Str}, nil
	}
	return Val{}, fmt.Errorf("%s is not a value", x)
}

// SqlEval evaluates the IR on a row.
func SqlEval(x *IR, row Row, opq Opaque) (bool, error) {
	switch x.Kind {
	case IAnd:
		res := true
		for _, a := range x.Args {
			v, err := SqlEval(a, row, opq)
			if err != nil {
				return false, err
			}
			res = res && v
		}
		return res, nil
	case IOr:
		res := false
		for _, a := range x.Args {
			v, err := SqlEval(a, row, opq)
			if err != nil {
				return false, err
			}
			res = res || v
		}
		return res, nil
	case INot:
		v, err := SqlEval(x.Args[0], row, opq)
		return !v, err
	case ICmp:
		a, err := irVal(x.Args[0], row)
		if err != nil {
			return false, err
		}
		b, err := irVal(x.Args[1], row)
		if err != nil {
			return false, err
		}
		if x.Op == "=" {
			return eqVals(a, b), nil
		}
		c, err := cmpVals(a, b)
		if err != nil {
			return false, err
		}
		switch x.Op {
		case "<":
			return c < 0, nil
		case "<=":
			return c <= 0, nil
		case ">":
			return c > 0, nil
		default:
			return c >= 0, nil
		}
	case IBetween:
		a, err := irVal(x.Args[0], row)
		if err != nil {
			return false, err
		}
		lo, err := irVal(x.Args[1], row)
		if err != nil {
			return false, err
		}
		hi, err := irVal(x.Args[2], row)
		if err != nil {
			return false, err
		}
		c1, err := cmpVals(a, lo)
		if err != nil {
			return false, err
		}
		c2, err := cmpVals(a, hi)
		if err != nil {
			return false, err
		}
		return c1 >= 0 && c2 <= 0, nil
	case IIn:
		a, err := irVal(x.Args[0], row)
		if err != nil {
			return false, err
		}
		for _, it := range x.Args[1:] {
			b, err := irVal(it, row)
			if err != nil {
				return false, err
			}
			if eqVals(a, b) {
				return true, nil
			}
		}
		return false, nil
	case ISimilar, IRegex:
		a, err := irVal(x.Args[0], row)
		if err != nil {
			return false, err
		}
		if a.IsNum || x.Args[1].Kind != IStr {
			return false, ErrUntyped
		}
		var re *regexp.Regexp
		if x.Kind == ISimilar {
			re, err = SimilarToRegexp(x.Args[1].Str)
		} else {
			re, err = compileCached(x.Args[1].Str)
		}
		if err != nil {
			return opq(x.String()), nil
		}
		return re.MatchString(a.Str), nil
	case IStr, INum, ICol, IParam:
		return opq(x.String()), nil
	}
	return false, fmt.Errorf("cannot evaluate %s", x)
}

// ErrOutsideFragment marks query nodes outside the filterable fragment of C03.
var ErrOutsideFragment = errors.New("outside the filterable fragment")

// NumOf returns the exact value of a numeric term: an int, or the shortest round-trip decimal
// of the float64 the text denotes.
func NumOf(v qt.Value) *big.Rat {
	if v.Kind == qt.VInt {
		return new(big.Rat).SetInt64(int64(v.I))
	}
	r, _ := new(big.Rat).SetString(strconv.FormatFloat(v.F, 'g', -1, 64))
	return r
}

func qtVal(v qt.Value) (Val, error) {
	switch {
	case v.IsNum():
		return Val{IsNum: true, Num: NumOf(v)}, nil
	case v.IsString():
		return Val{Str: v.S}, nil
	}
	return Val{}, ErrOutsideFragment
}

// LucEval is the meaning of the filterable fragment on a row.
func LucEval(n *qt.Node, row Row) (bool, error) {
	col := func() (Val, error) {
		if n.Field.Kind != qt.VWord && n.Field.Kind != qt.VPhrase && n.Field.Kind != qt.VEscaped {
			return Val{}, ErrOutsideFragment
		}
		v, ok := row[n.Field.S]
		if !ok {
			return Val{}, fmt.Errorf("column %q is not in the probe row", n.Field.S)
		}
		return v, nil
	}
	switch n.Kind {
	case qt.KField:
		a, err := col()
		if err != nil {
			return false, err
		}
		if n.Val.Kind == qt.VWild {
			if a.IsNum {
				return false, ErrUntyped
			}
			re, err := WildcardRegexp(n.Val.S)
			if err != nil {
				return false, err
			}
			return re.MatchString(a.Str), nil
		}
		b, err := qtVal(n.Val)
		if err != nil {
			return false, err
		}
		return eqVals(a, b), nil
	case qt.KCmp:
		a, err := col()
		if err != nil {
			return false, err
		}
		b, err := qtVal(n.Val)
		if err != nil {
			return false, err
		}
		c, err := cmpVals(a, b)
		if err != nil {
			return false, err
		}
		switch n.Cmp {
		case ">":
			return c > 0, nil
		case ">=":
			return c >= 0, nil
		case "<":
			return c < 0, nil
		default:
			return c <= 0, nil
		}
	case qt.KRange:
		a, err := col()
		if err != nil {
			return false, err
		}
		ok := true
		if n.Lo.Kind != qt.VOpen {
			b, err := qtVal(n.Lo)
			if err != nil {
				return false, err
			}
			c, err := cmpVals(a, b)
			if err != nil {
				return false, err
			}
			ok = ok && (c > 0 || (n.Incl && c == 0))
		}
		if n.Hi.Kind != qt.VOpen {
			b, err := qtVal(n.Hi)
			if err != nil {
				return false, err
			}
			c, err := cmpVals(a, b)
			if err != nil {
				return false, err
			}
			ok = ok && (c < 0 || (n.Incl && c == 0))
		}
		return ok, nil
	case qt.KList:
		a, err := col()
		if err != nil {
			return false, err
		}
		for _, v := range n.Vals {
			b, err := qtVal(v)
			if err != nil {
				return false, err
			}
			if eqVals(a, b) {
				return true, nil
			}
		}
		return false, nil
	case qt.KAnd:
		l, err := LucEval(n.Kids[0], row)
		if err != nil {
			return false, err
		}
		r, err := LucEval(n.Kids[1], row)
		return l && r, err
	case qt.KOr:
		l, err := LucEval(n.Kids[0], row)
		if err != nil {
			return false, err
		}
		r, err := LucEval(n.Kids[1], row)
		return l || r, err
	case qt.KNot, qt.KMustNot:
		v, err := LucEval(n.Kids[0], row)
		return !v, err
	case qt.KMust:
		return LucEval(n.Kids[0], row)
	}
	return false, ErrOutsideFragment
}

// ---------------------------------------------------------------------------------------------
// probe rows

func rat(s string) *big.Rat {
	r, _ := new(big.Rat).SetString(s)
	return r
}

// numProbes returns the probe values around a set of numeric constants.
func numProbes(cs []*big.Rat) []Val {
	out := []*big.Rat{}
	add := func(r *big.Rat) { out = append(out, r) }
	deltas := []*big.Rat{rat("1"), rat("1/1000"), rat("1/1000000000"), rat("1/100"), rat("1/2")}
	sorted := append([]*big.Rat{}, cs...)
	sort.Slice(sorted, func(i, j int) bool { return sorted[i].Cmp(sorted[j]) < 0 })
	for i, c := range sorted {
		add(c)
		for _, d := range deltas {
			add(new(big.Rat).Add(c, d))
			add(new(big.Rat).Sub(c, d))
		}
		if i > 0 {
			m := new(big.Rat).Add(c, sorted[i-1])
			add(m.Quo(m, rat("2")))
		}
	}
	add(rat("0"))
	add(rat("1000000000000000000"))
	add(rat("-1000000000000000000"))
	seen := map[string]bool{}
	vals := []Val{}
	for _, r := range out {
		k := r.RatString()
		if !seen[k] {
			seen[k] = true
			vals = append(vals, Val{IsNum: true, Num: r})
		}
	}
	return vals
}

// strProbes returns probe values around string constants and wildcard patterns.
func strProbes(cs []string, patterns []string) []Val {
	out := []string{"", "~~~~", "a", "0"}
	for _, c := range cs {
		out = append(out, c, c+"!", c+"a", c+" ", " "+c, strings.ToUpper(c), c+c)
		if len(c) > 0 {
			out = append(out, c[:len(c)-1])
			b := []byte(c)
			if b[len(b)-1] > 1 {
				b[len(b)-1]--
				out = append(out, string(b)+"~~")
			}
			b = []byte(c)
			if b[0] < 0x7e {
				b[0]++
				out = append(out, string(b))
			}
			if len(c) > 1 {
				out = append(out, c[1:])
			}
		}
	}
	for _, p := range patterns {
		for _, star := range []string{"", "x", "xyz", "%", "_"} {
			for _, q := range []string{"q", "_", "%"} {
				inst := strings.ReplaceAll(strings.ReplaceAll(p, "*", star), "?", q)
				out = append(out, inst, inst+"z", "z"+inst)
				if len(inst) > 0 {
					out = append(out, inst[:len(inst)-1], inst[1:])
				}
			}
		}
		// near-misses on literal characters of the pattern, in particular _ and %
		rs := []rune(p)
		for i, r := range rs {
			if r == '*' || r == '?' {
				continue
			}
			alt := 'z'
			if r == 'z' {
				alt = 'y'
			}
			m := append([]rune{}, rs...)
			m[i] = alt
			inst := strings.ReplaceAll(strings.ReplaceAll(string(m), "*", "x"), "?", "q")
			out = append(out, inst)
			inst0 := strings.ReplaceAll(strings.ReplaceAll(string(m), "*", ""), "?", "q")
			out = append(out, inst0)
		}
		// the pattern text itself and its SQL translation as data
		out = append(out, p, strings.ReplaceAll(strings.ReplaceAll(p, "*", "%"), "?", "_"))
	}
	seen := map[string]bool{}
	vals := []Val{}
	for _, s := range out {
		if !seen[s] {
			seen[s] = true
			vals = append(vals, Val{Str: s})
		}
	}
	return vals
}

// FieldInfo collects what a query says about one field.
type FieldInfo struct {
	IsNum    bool
	Nums     []*big.Rat
	Strs     []string
	Patterns []string
	Mixed    bool // both numeric and string constants were used on the field
	// NameHintNum: the field is called n or m (numeric by the generators' convention)
	NameHintNum bool
}

// CollectFields gathers constants per field from a tree of the filterable fragment.
func CollectFields(n *qt.Node) map[string]*FieldInfo {
	out := map[string]*FieldInfo{}
	get := func(f string) *FieldInfo {
		fi := out[f]
		if fi == nil {
			fi = &FieldInfo{NameHintNum: f == "n" || f == "m"}
			out[f] = fi
		}
		return fi
	}
	addVal := func(fi *FieldInfo, v qt.Value) {
		switch {
		case v.IsNum():
			fi.Nums = append(fi.Nums, NumOf(v))
		case v.Kind == qt.VWild:
			fi.Patterns = append(fi.Patterns, v.S)
		case v.IsString():
			fi.Strs = append(fi.Strs, v.S)
		}
	}
	n.Walk(func(x *qt.Node) {
		switch x.Kind {
		case qt.KField, qt.KCmp:
			addVal(get(x.Field.S), x.Val)
		case qt.KRange:
			addVal(get(x.Field.S), x.Lo)
			addVal(get(x.Field.S), x.Hi)
		case qt.KList:
			for _, v := range x.Vals {
				addVal(get(x.Field.S), v)
			}
		}
	})
	for _, fi := range out {
		hasStr := len(fi.Strs)+len(fi.Patterns) > 0
		fi.IsNum = len(fi.Nums) > 0 && !hasStr
		if len(fi.Nums) == 0 && !hasStr {
			// a field the query only mentions with unbounded ends: the generators name numeric
			// fields n and m
			fi.IsNum = fi.NameHintNum
		}
		fi.Mixed = len(fi.Nums) > 0 && hasStr
	}
	return out
}

// ProbeRows builds the probe rows of a query: per field the values around its constants, then
// the cross product, capped by seeded sampling that always keeps the first row of each field.
func ProbeRows(fields map[string]*FieldInfo, r *rand.Rand, limit int) []Row {
	names := []string{}
	for f := range fields {
		names = append(names, f)
	}
	sort.Strings(names)
	vals := make([][]Val, len(names))
	total := 1
	for i, f := range names {
		fi := fields[f]
		if fi.IsNum {
			vals[i] = numProbes(fi.Nums)
		} else {
			vals[i] = strProbes(fi.Strs, fi.Patterns)
		}
		if total <= limit*4 {
			total *= len(vals[i])
		}
	}
	rows := []Row{}
	if total <= limit {
		idx := make([]int, len(names))
		for {
			row := Row{}
			for i, f := range names {
				row[f] = vals[i][idx[i]]
			}
			rows = append(rows, row)
			k := 0
			for k < len(idx) {
				idx[k]++
				if idx[k] < len(vals[k]) {
					break
				}
				idx[k] = 0
				k++
			}
			if k == len(idx) {
				break
			}
		}
		return rows
	}
	// one-field-at-a-time sweeps over a base row, then random combinations
	for b := 0; b < 3; b++ {
		base := Row{}
		for i, f := range names {
			base[f] = vals[i][(b*7)%len(vals[i])]
		}
		for i, f := range names {
			for _, v := range vals[i] {
				row := Row{}
				for k, x := range base {
					row[k] = x
				}
				row[f] = v
				rows = append(rows, row)
				if len(rows) >= limit/2 {
					break
				}
			}
		}
	}
	for len(rows) < limit {
		row := Row{}
		for i, f := range names {
			row[f] = vals[i][r.Intn(len(vals[i]))]
		}
		rows = append(rows, row)
	}
	return rows
}

// RowOpaque builds an Opaque function that is a deterministic function of the key and row number.
func RowOpaque(rowNo int) Opaque {
	return func(key string) bool {
		h := uint32(2166136261)
		for i := 0; i < len(key); i++ {
			h = (h ^ uint32(key[i])) * 16777619
		}
		h ^= uint32(rowNo) * 2654435761
		h ^= h >> 15
		return h&1 == 1
	}
}
