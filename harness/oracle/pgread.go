package oracle

import (
	"fmt"
	"math/big"
	"strconv"
	"strings"

	pg_query "github.com/pganalyze/pg_query_go/v4"
	"google.golang.org/protobuf/proto"
)

// IRKind is the kind of an IR node.
type IRKind int

// IR node kinds: exactly the constructs the property allows in rendered SQL.
const (
	IAnd IRKind = iota
	IOr
	INot
	ICmp     // Op in = < <= > >=
	IBetween // Args: x, lo, hi
	IIn      // Args: x, items...
	ISimilar // Args: x, pattern
	IRegex   // Args: x, pattern
	ICol
	INum
	IStr
	IParam
)

// IR is the small intermediate representation of a WHERE expression as PostgreSQL's own
// parser read it.
type IR struct {
	Kind  IRKind
	Op    string
	Args  []*IR
	Col   string   // ICol: the identifier as PostgreSQL decoded it
	Num   *big.Rat // INum
	Str   string   // IStr
	Param int      // IParam: 1-based
}

// PgResult is what PgRead observed.
type PgResult struct {
	IR       *IR
	Reject   string // non-empty: why the text is not the one confined boolean expression
	Skipped  string // non-empty: libpg_query's own limits were hit (not a rejection)
	Comments int
}

const pgPrefix = "SELECT 1 FROM t WHERE ("

// ReplacePlaceholders rewrites each ? outside "..." and '...' to $k and returns how many there were.
func ReplacePlaceholders(sql string) (string, int) {
	var b strings.Builder
	n := 0
	inD, inS := false, false
	for i := 0; i < len(sql); i++ {
		c := sql[i]
		switch {
		case inD:
			if c == '"' {
				inD = false
			}
		case inS:
			if c == '\'' {
				inS = false
			}
		case c == '"':
			inD = true
		case c == '\'':
			inS = true
		case c == '?':
			n++
			b.WriteString("$" + strconv.Itoa(n))
			continue
		}
		b.WriteByte(c)
	}
	return b.String(), n
}

// PgRead parses the rendered text inside SELECT 1 FROM t WHERE (<text>) with PostgreSQL's
// grammar and converts the WHERE expression to the IR, rejecting everything outside the
// whitelist.
func PgRead(sql string) PgResult {
	full := pgPrefix + sql + ")"
	if len(full) > 64<<10 {
		return PgResult{Skipped: "sql longer than 64 KiB"}
	}
	tree, err := pg_query.Parse(full)
	if err != nil {
		msg := err.Error()
		if strings.Contains(msg, "stack depth") || strings.Contains(msg, "memory exhausted") || strings.Contains(msg, "out of memory") {
			return PgResult{Skipped: msg}
		}
		return PgResult{Reject: "postgres syntax error: " + msg}
	}
	res := PgResult{}
	if len(tree.Stmts) != 1 {
		res.Reject = fmt.Sprintf("%d statements", len(tree.Stmts))
		return res
	}
	sel := tree.Stmts[0].Stmt.GetSelectStmt()
	if sel == nil {
		res.Reject = "not a SELECT statement"
		return res
	}
	// only the fixed target list, FROM t and the WHERE clause may be populated
	c := proto.Clone(sel).(*pg_query.SelectStmt)
	c.TargetList, c.FromClause, c.WhereClause = nil, nil, nil
	empty := &pg_query.SelectStmt{LimitOption: pg_query.LimitOption_LIMIT_OPTION_DEFAULT, Op: pg_query.SetOperation_SETOP_NONE}
	if !proto.Equal(c, empty) {
		res.Reject = "SELECT has members other than the WHERE clause: " + trunc(c.String(), 200)
		return res
	}
	if len(sel.TargetList) != 1 || len(sel.FromClause) != 1 || sel.WhereClause == nil {
		res.Reject = "target list / FROM / WHERE shape changed"
		return res
	}
	if rt := sel.TargetList[0].GetResTarget(); rt == nil || rt.Name != "" || len(rt.Indirection) != 0 || rt.Val.GetAConst() == nil || rt.Val.GetAConst().GetIval() == nil || rt.Val.GetAConst().GetIval().Ival != 1 {
		res.Reject = "target list is not the constant 1"
		return res
	}
	if rv := sel.FromClause[0].GetRangeVar(); rv == nil || rv.Relname != "t" || rv.Schemaname != "" || rv.Catalogname != "" || rv.Alias != nil {
		res.Reject = "FROM clause is not t"
		return res
	}
	// comments
	if strings.Contains(sql, "--") || strings.Contains(sql, "/*") {
		sc, err := pg_query.Scan(full)
		if err != nil {
			res.Reject = "postgres scan error: " + err.Error()
			return res
		}
		for _, t := range sc.Tokens {
			if t.Token == pg_query.Token_SQL_COMMENT || t.Token == pg_query.Token_C_COMMENT {
				res.Comments++
			}
		}
		if res.Comments > 0 {
			res.Reject = fmt.Sprintf("%d comment tokens", res.Comments)
			return res
		}
	}
	ir, rej := toIR(sel.WhereClause, 0)
	if rej != "" {
		res.Reject = rej
		return res
	}
	res.IR = ir
	return res
}

func trunc(s string, n int) string {
	if len(s) > n {
		return s[:n] + "..."
	}
	return s
}

func opName(names []*pg_query.Node) string {
	if len(names) != 1 || names[0].GetString_() == nil {
		return "?"
	}
	return names[0].GetString_().Sval
}

func toIR(n *pg_query.Node, depth int) (*IR, string) {
	if n == nil {
		return nil, "missing operand"
	}
	if depth > 4000 {
		return nil, "nesting too deep"
	}
	switch v := n.Node.(type) {
	case *pg_query.Node_BoolExpr:
		kind := IAnd
		switch v.BoolExpr.Boolop {
		case pg_query.BoolExprType_AND_EXPR:
		case pg_query.BoolExprType_OR_EXPR:
			kind = IOr
		case pg_query.BoolExprType_NOT_EXPR:
			kind = INot
		default:
			return nil, "unknown boolean operator"
		}
		out := &IR{Kind: kind}
		for _, a := range v.BoolExpr.Args {
			c, rej := toIR(a, depth+1)
			if rej != "" {
				return nil, rej
			}
			out.Args = append(out.Args, c)
		}
		if kind == INot && len(out.Args) != 1 {
			return nil, "NOT with other than one operand"
		}
		return out, ""
	case *pg_query.Node_AExpr:
		e := v.AExpr
		name := opName(e.Name)
		switch e.Kind {
		case pg_query.A_Expr_Kind_AEXPR_OP:
			if e.Lexpr == nil {
				return nil, "unary operator " + name
			}
			l, rej := toIR(e.Lexpr, depth+1)
			if rej != "" {
				return nil, rej
			}
			r, rej := toIR(e.Rexpr, depth+1)
			if rej != "" {
				return nil, rej
			}
			switch name {
			case "=", "<", "<=", ">", ">=":
				return &IR{Kind: ICmp, Op: name, Args: []*IR{l, r}}, ""
			case "~":
				return &IR{Kind: IRegex, Args: []*IR{l, r}}, ""
			}
			return nil, "operator " + name
		case pg_query.A_Expr_Kind_AEXPR_BETWEEN:
			l, rej := toIR(e.Lexpr, depth+1)
			if rej != "" {
				return nil, rej
			}
			lst := e.Rexpr.GetList()
			if lst == nil || len(lst.Items) != 2 {
				return nil, "BETWEEN without two bounds"
			}
			lo, rej := toIR(lst.Items[0], depth+1)
			if rej != "" {
				return nil, rej
			}
			hi, rej := toIR(lst.Items[1], depth+1)
			if rej != "" {
				return nil, rej
			}
			return &IR{Kind: IBetween, Args: []*IR{l, lo, hi}}, ""
		case pg_query.A_Expr_Kind_AEXPR_IN:
			if name != "=" {
				return nil, "NOT IN"
			}
			l, rej := toIR(e.Lexpr, depth+1)
			if rej != "" {
				return nil, rej
			}
			lst := e.Rexpr.GetList()
			if lst == nil {
				return nil, "IN without a list"
			}
			out := &IR{Kind: IIn, Args: []*IR{l}}
			for _, it := range lst.Items {
				c, rej := toIR(it, depth+1)
				if rej != "" {
					return nil, rej
				}
				out.Args = append(out.Args, c)
			}
			return out, ""
		case pg_query.A_Expr_Kind_AEXPR_SIMILAR:
			if name != "~" {
				return nil, "NOT SIMILAR TO"
			}
			l, rej := toIR(e.Lexpr, depth+1)
			if rej != "" {
				return nil, rej
			}
			fc := e.Rexpr.GetFuncCall()
			if fc == nil || len(fc.Args) != 1 || len(fc.Funcname) != 2 || fc.Funcname[1].GetString_() == nil || fc.Funcname[1].GetString_().Sval != "similar_to_escape" ||
				fc.AggOrder != nil || fc.AggFilter != nil || fc.Over != nil || fc.AggStar || fc.AggDistinct || fc.FuncVariadic || fc.AggWithinGroup {
				return nil, "SIMILAR TO with an ESCAPE clause or a foreign function"
			}
			p, rej := toIR(fc.Args[0], depth+1)
			if rej != "" {
				return nil, rej
			}
			return &IR{Kind: ISimilar, Args: []*IR{l, p}}, ""
		}
		return nil, "expression kind " + e.Kind.String()
	case *pg_query.Node_ColumnRef:
		f := v.ColumnRef.Fields
		if len(f) != 1 || f[0].GetString_() == nil {
			return nil, "qualified or starred column reference"
		}
		return &IR{Kind: ICol, Col: f[0].GetString_().Sval}, ""
	case *pg_query.Node_AConst:
		c := v.AConst
		switch {
		case c.Isnull:
			return nil, "NULL constant"
		case c.GetIval() != nil:
			return &IR{Kind: INum, Num: new(big.Rat).SetInt64(int64(c.GetIval().Ival))}, ""
		case c.GetFval() != nil:
			r, ok := new(big.Rat).SetString(c.GetFval().Fval)
			if !ok {
				return nil, "numeric constant " + c.GetFval().Fval
			}
			return &IR{Kind: INum, Num: r}, ""
		case c.GetSval() != nil:
			return &IR{Kind: IStr, Str: c.GetSval().Sval}, ""
		}
		// a zero integer constant is encoded as an empty Ival
		if _, ok := c.Val.(*pg_query.A_Const_Ival); ok {
			return &IR{Kind: INum, Num: new(big.Rat)}, ""
		}
		return nil, "constant kind " + trunc(c.String(), 60)
	case *pg_query.Node_ParamRef:
		return &IR{Kind: IParam, Param: int(v.ParamRef.Number)}, ""
	}
	s := fmt.Sprintf("%T", n.Node)
	s = strings.TrimPrefix(s, "*pg_query.Node_")
	return nil, "node kind " + s
}

// String prints an IR canonically (used as atom key and in reports).
func (x *IR) String() string {
	if x == nil {
		return "<nil>"
	}
	switch x.Kind {
	case IAnd, IOr:
		parts := []string{}
		for _, a := range x.Args {
			parts = append(parts, a.String())
		}
		op := " AND "
		if x.Kind == IOr {
			op = " OR "
		}
		return "(" + strings.Join(parts, op) + ")"
	case INot:
		return "NOT " + x.Args[0].String()
	case ICmp:
		return "(" + x.Args[0].String() + " " + x.Op + " " + x.Args[1].String() + ")"
	case IBetween:
		return "(" + x.Args[0].String() + " BETWEEN " + x.Args[1].String() + " AND " + x.Args[2].String() + ")"
	case IIn:
		parts := []string{}
		for _, a := range x.Args[1:] {
			parts = append(parts, a.String())
		}
		return "(" + x.Args[0].String() + " IN [" + strings.Join(parts, ", ") + "])"
	case ISimilar:
		return "(" + x.Args[0].String() + " SIMILAR " + x.Args[1].String() + ")"
	case IRegex:
		return "(" + x.Args[0].String() + " ~ " + x.Args[1].String() + ")"
	case ICol:
		return "col(" + strconv.Quote(x.Col) + ")"
	case INum:
		return "num(" + x.Num.RatString() + ")"
	case IStr:
		return "str(" + strconv.Quote(x.Str) + ")"
	case IParam:
		return "$" + strconv.Itoa(x.Param)
	}
	return "?"
}

// Walk visits every node.
func (x *IR) Walk(fn func(*IR)) {
	if x == nil {
		return
	}
	fn(x)
	for _, a := range x.Args {
		a.Walk(fn)
	}
}

// Subst replaces parameters by constants built from Go values. ok is false when a parameter
// index is out of range or a value has an unexpected kind.
func (x *IR) Subst(params []any) (*IR, bool) {
	if x == nil {
		return nil, true
	}
	if x.Kind == IParam {
		if x.Param < 1 || x.Param > len(params) {
			return nil, false
		}
		return GoConst(params[x.Param-1])
	}
	c := *x
	c.Args = nil
	for _, a := range x.Args {
		s, ok := a.Subst(params)
		if !ok {
			return nil, false
		}
		c.Args = append(c.Args, s)
	}
	return &c, true
}

// GoConst turns a Go parameter value into an IR constant. A float64 is read as its shortest
// round-trip decimal so that 0.001 means 1/1000 on both sides.
func GoConst(v any) (*IR, bool) {
	switch t := v.(type) {
	case int:
		return &IR{Kind: INum, Num: new(big.Rat).SetInt64(int64(t))}, true
	case float64:
		r, ok := new(big.Rat).SetString(strconv.FormatFloat(t, 'g', -1, 64))
		if !ok {
			return nil, false
		}
		return &IR{Kind: INum, Num: r}, true
	case string:
		return &IR{Kind: IStr, Str: t}, true
	}
	return nil, false
}

// Equal compares two IRs structurally, numbers by value.
func (x *IR) Equal(y *IR) bool {
	if x == nil || y == nil {
		return x == y
	}
	if x.Kind != y.Kind || x.Op != y.Op || x.Col != y.Col || x.Str != y.Str || x.Param != y.Param || len(x.Args) != len(y.Args) {
		return false
	}
	if x.Kind == INum && x.Num.Cmp(y.Num) != 0 {
		return false
	}
	for i := range x.Args {
		if !x.Args[i].Equal(y.Args[i]) {
			return false
		}
	}
	return true
}
