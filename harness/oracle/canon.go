package oracle

import (
	"fmt"
	"strconv"
	"strings"

	"github.com/grindlemire/go-lucene/pkg/lucene/expr"
)

// CanonExpr is the same normal form as qt.Node.Canon, read off an expression through its
// exported fields (distance and power through the JSON encoding).
func CanonExpr(x any) string {
	switch v := x.(type) {
	case nil:
		return "nil"
	case *expr.Expression:
		if v == nil {
			return "nil"
		}
		switch v.Op {
		case expr.Literal, expr.Wild, expr.Regexp:
			tag := map[expr.Operator]string{expr.Wild: "w:", expr.Regexp: "r:"}[v.Op]
			switch l := v.Left.(type) {
			case expr.Column:
				return "col:" + strconv.Quote(string(l))
			case string:
				if tag == "" {
					tag = "s:"
				}
				return tag + strconv.Quote(l)
			case int:
				return "i:" + strconv.Itoa(l)
			case float64:
				return "f:" + strconv.FormatFloat(l, 'g', -1, 64)
			}
			return fmt.Sprintf("leaf?%T:%v", v.Left, v.Left)
		case expr.Not, expr.Must, expr.MustNot:
			return v.Op.String() + "(" + CanonExpr(v.Left) + ")"
		case expr.Fuzzy:
			d, _ := fuzzyBoostArgs(v)
			return "FUZZY(" + CanonExpr(v.Left) + "," + strconv.Itoa(d) + ")"
		case expr.Boost:
			_, p := fuzzyBoostArgs(v)
			return "BOOST(" + CanonExpr(v.Left) + "," + strconv.FormatFloat(p, 'g', -1, 64) + ")"
		case expr.Range:
			if b, ok := v.Right.(*expr.RangeBoundary); ok && b != nil {
				return fmt.Sprintf("RANGE(%s,%s,%s,%v)", CanonExpr(v.Left), CanonExpr(b.Min), CanonExpr(b.Max), b.Inclusive)
			}
			return "RANGE(" + CanonExpr(v.Left) + ",?" + CanonExpr(v.Right) + ")"
		case expr.List:
			return "LIST(" + CanonExpr(v.Left) + ")"
		}
		return v.Op.String() + "(" + CanonExpr(v.Left) + "," + CanonExpr(v.Right) + ")"
	case []*expr.Expression:
		parts := []string{}
		for _, e := range v {
			parts = append(parts, CanonExpr(e))
		}
		return strings.Join(parts, ",")
	case *expr.RangeBoundary:
		if v == nil {
			return "nil"
		}
		return fmt.Sprintf("BOUNDS(%s,%s,%v)", CanonExpr(v.Min), CanonExpr(v.Max), v.Inclusive)
	}
	return fmt.Sprintf("?%T:%v", x, x)
}
