package oracle

import (
	"github.com/grindlemire/go-lucene/internal/lex"
	"github.com/grindlemire/go-lucene/pkg/lucene/expr"
)

// Deriver decides whether a tree can be laid over a token sequence as a derivation in the
// documented grammar. Precedence is deliberately not part of it (that is C05's business).
type Deriver struct {
	toks  []Tok
	field string // default field ("" = none)
	memo  map[dkey]bool
	Steps int
}

type dkey struct {
	e    *expr.Expression
	i, j int
}

// NewDeriver creates a deriver over a token sequence.
func NewDeriver(toks []Tok, defaultField string) *Deriver {
	return &Deriver{toks: toks, field: defaultField, memo: map[dkey]bool{}}
}

// Derives reports whether the whole token sequence derives e.
func (d *Deriver) Derives(e *expr.Expression) bool {
	if e == nil || len(d.toks) == 0 {
		return false
	}
	return d.expr(e, 0, len(d.toks))
}

func (d *Deriver) typ(i int) lex.TokType { return d.toks[i].Typ }

func (d *Deriver) parens(i, j int) bool {
	return j-i >= 3 && d.typ(i) == lex.TLParen && d.typ(j-1) == lex.TRParen
}

func asExpr(x any) *expr.Expression {
	e, _ := x.(*expr.Expression)
	return e
}

// expr: tokens[i:j) derive e.
func (d *Deriver) expr(e *expr.Expression, i, j int) bool {
	if e == nil || i >= j {
		return false
	}
	k := dkey{e, i, j}
	if v, ok := d.memo[k]; ok {
		return v
	}
	d.memo[k] = false // cycle guard
	v := d.exprUncached(e, i, j)
	d.memo[k] = v
	return v
}

func (d *Deriver) exprUncached(e *expr.Expression, i, j int) bool {
	d.Steps++
	// ( E )
	if d.parens(i, j) && d.expr(e, i+1, j-1) {
		return true
	}
	switch e.Op {
	case expr.Literal, expr.Wild, expr.Regexp:
		return j-i == 1 && MatchesTerm(e, d.toks[i])
	case expr.Equals, expr.Like:
		// a bare term scoped by the default field
		if d.field != "" && j-i == 1 {
			if col := asExpr(e.Left); col != nil && col.Op == expr.Literal && col.Left == expr.Column(d.field) && col.Right == nil {
				if MatchesTerm(e.Right, d.toks[i]) {
					return true
				}
			}
		}
		for k := i + 1; k < j-1; k++ {
			if d.typ(k) != lex.TColon && d.typ(k) != lex.TEqual {
				continue
			}
			if d.fieldTerm(e.Left, i, k) && d.expr(asExpr(e.Right), k+1, j) {
				return true
			}
		}
		return false
	case expr.Greater, expr.Less, expr.GreaterEq, expr.LessEq:
		want := lex.TGreater
		if e.Op == expr.Less || e.Op == expr.LessEq {
			want = lex.TLess
		}
		withEq := e.Op == expr.GreaterEq || e.Op == expr.LessEq
		for k := i + 1; k < j-2; k++ {
			if d.typ(k) != lex.TColon || d.typ(k+1) != want {
				continue
			}
			v := k + 2
			if withEq {
				if v >= j-1 || d.typ(v) != lex.TEqual {
					continue
				}
				v++
			}
			if d.fieldTerm(e.Left, i, k) && d.expr(asExpr(e.Right), v, j) {
				return true
			}
		}
		return false
	case expr.Range:
		b, ok := e.Right.(*expr.RangeBoundary)
		if !ok || b == nil {
			return false
		}
		closeSq := d.typ(j-1) == lex.TRSquare
		if !closeSq && d.typ(j-1) != lex.TRCurly {
			return false
		}
		for k := i + 1; k < j-5; k++ {
			if d.typ(k) != lex.TColon {
				continue
			}
			openSq := d.typ(k+1) == lex.TLSquare
			if !openSq && d.typ(k+1) != lex.TLCurly {
				continue
			}
			if b.Inclusive != (openSq && closeSq) {
				continue
			}
			if !d.fieldTerm(e.Left, i, k) {
				continue
			}
			for m := k + 3; m < j-2; m++ {
				if d.typ(m) == lex.TTO && d.bound(b.Min, k+2, m) && d.bound(b.Max, m+1, j-1) {
					return true
				}
			}
		}
		return false
	case expr.In:
		l := asExpr(e.Right)
		if l == nil || l.Op != expr.List {
			return false
		}
		vals, ok := l.Left.([]*expr.Expression)
		if !ok || len(vals) < 2 {
			return false
		}
		for k := i + 1; k < j-1; k++ {
			if d.typ(k) != lex.TColon && d.typ(k) != lex.TEqual {
				continue
			}
			if d.fieldTerm(e.Left, i, k) && d.parens(k+1, j) && d.list(vals, k+2, j-1) {
				return true
			}
		}
		return false
	case expr.And:
		l, r := asExpr(e.Left), asExpr(e.Right)
		for m := i + 1; m < j; m++ {
			// juxtaposition
			if d.expr(l, i, m) && d.expr(r, m, j) {
				return true
			}
			if m < j-1 && d.typ(m) == lex.TAnd && d.expr(l, i, m) && d.expr(r, m+1, j) {
				return true
			}
		}
		return false
	case expr.Or:
		l, r := asExpr(e.Left), asExpr(e.Right)
		for m := i + 1; m < j-1; m++ {
			if d.typ(m) == lex.TOr && d.expr(l, i, m) && d.expr(r, m+1, j) {
				return true
			}
		}
		return false
	case expr.Not:
		return e.Right == nil && d.typ(i) == lex.TNot && d.expr(asExpr(e.Left), i+1, j)
	case expr.Must:
		return e.Right == nil && d.typ(i) == lex.TPlus && d.expr(asExpr(e.Left), i+1, j)
	case expr.MustNot:
		return e.Right == nil && d.typ(i) == lex.TMinus && d.expr(asExpr(e.Left), i+1, j)
	case expr.Fuzzy, expr.Boost:
		if e.Right != nil {
			return false
		}
		want := lex.TTilde
		if e.Op == expr.Boost {
			want = lex.TCarrot
		}
		dist, power := fuzzyBoostArgs(e)
		// without argument
		if d.typ(j-1) == want && d.expr(asExpr(e.Left), i, j-1) {
			if (e.Op == expr.Fuzzy && dist == 1) || (e.Op == expr.Boost && power == 1.0) {
				return true
			}
		}
		for m := i + 1; m < j-1; m++ {
			if d.typ(m) == want && d.arg(e.Op, dist, power, m+1, j) && d.expr(asExpr(e.Left), i, m) {
				return true
			}
		}
		return false
	}
	return false
}

// fieldTerm: tokens[i:k) are one term (possibly parenthesised) that is x in field position.
func (d *Deriver) fieldTerm(x any, i, k int) bool {
	d.Steps++
	if k-i == 1 {
		return MatchesField(x, d.toks[i])
	}
	return d.parens(i, k) && d.fieldTerm(x, i+1, k-1)
}

// bound: tokens[i:j) are one term (possibly parenthesised) equal to x.
func (d *Deriver) bound(x any, i, j int) bool {
	d.Steps++
	if j-i == 1 {
		return MatchesTerm(x, d.toks[i])
	}
	return d.parens(i, j) && d.bound(x, i+1, j-1)
}

// list: tokens[i:j) are an OR-tree whose in-order leaves are vals.
func (d *Deriver) list(vals []*expr.Expression, i, j int) bool {
	d.Steps++
	if i >= j || len(vals) == 0 {
		return false
	}
	if d.parens(i, j) && d.list(vals, i+1, j-1) {
		return true
	}
	if len(vals) == 1 {
		return j-i == 1 && vals[0] != nil && vals[0].Op == expr.Literal && MatchesTerm(vals[0], d.toks[i])
	}
	for m := i + 1; m < j-1; m++ {
		if d.typ(m) != lex.TOr {
			continue
		}
		for s := 1; s < len(vals); s++ {
			if d.list(vals[:s], i, m) && d.list(vals[s:], m+1, j) {
				return true
			}
		}
	}
	return false
}

// arg: tokens[i:j) are the numeric argument of ~ or ^ with the given value.
func (d *Deriver) arg(op expr.Operator, dist int, power float64, i, j int) bool {
	d.Steps++
	if j-i == 1 {
		t := d.toks[i]
		if t.Typ != lex.TLiteral {
			return false
		}
		tv := TypedValue(t)
		if tv.Op != expr.Literal {
			return false
		}
		switch v := tv.Val.(type) {
		case int:
			if op == expr.Fuzzy {
				return v == dist
			}
			return v > 0 && float64(v) == power
		case float64:
			return op == expr.Boost && v > 0 && v == power
		}
		return false
	}
	return d.parens(i, j) && d.arg(op, dist, power, i+1, j-1)
}
