// Package oracle holds the reference models and observers the property checks judge with.
package oracle

import (
	"fmt"
	"strings"

	"github.com/grindlemire/go-lucene/pkg/lucene/expr"
)

// IsTermExpr reports whether x is a single term: a Literal/Wild/Regexp expression holding a
// primitive value.
func IsTermExpr(x any) bool {
	e, ok := x.(*expr.Expression)
	if !ok || e == nil {
		return false
	}
	if e.Op != expr.Literal && e.Op != expr.Wild && e.Op != expr.Regexp {
		return false
	}
	if e.Right != nil {
		return false
	}
	switch e.Left.(type) {
	case string, int, float64, expr.Column:
		return true
	}
	return false
}

func isPlainValue(x *expr.Expression) bool {
	if x == nil || x.Op != expr.Literal || x.Right != nil {
		return false
	}
	switch x.Left.(type) {
	case string, int, float64:
		return true
	}
	return false
}

// Shape is the independent well-formedness walk of C10. It returns "" when the tree is well
// formed and a description of the first defect otherwise.
func Shape(x any) string {
	e, ok := x.(*expr.Expression)
	if !ok {
		return fmt.Sprintf("operand is %T, not an expression", x)
	}
	if e == nil {
		return "nil expression"
	}
	sub := func(what string, y any) string {
		if y == nil {
			return what + " operand missing"
		}
		if s := Shape(y); s != "" {
			return what + ": " + s
		}
		return ""
	}
	switch e.Op {
	case expr.Literal, expr.Wild, expr.Regexp:
		if !IsTermExpr(e) {
			return fmt.Sprintf("%v leaf holds %T", e.Op, e.Left)
		}
		if e.Op != expr.Literal {
			if _, isStr := e.Left.(string); !isStr {
				return fmt.Sprintf("%v leaf holds %T", e.Op, e.Left)
			}
		}
		return ""
	case expr.And, expr.Or:
		if s := sub("left", e.Left); s != "" {
			return e.Op.String() + " " + s
		}
		if s := sub("right", e.Right); s != "" {
			return e.Op.String() + " " + s
		}
		return ""
	case expr.Not, expr.Must, expr.MustNot, expr.Fuzzy, expr.Boost:
		if e.Right != nil {
			return e.Op.String() + " has two operands"
		}
		if s := sub("operand", e.Left); s != "" {
			return e.Op.String() + " " + s
		}
		return ""
	case expr.Equals, expr.Greater, expr.Less, expr.GreaterEq, expr.LessEq:
		if !IsTermExpr(e.Left) {
			return e.Op.String() + " field position does not hold a single term"
		}
		if s := sub("value", e.Right); s != "" {
			return e.Op.String() + " " + s
		}
		return ""
	case expr.Like:
		if !IsTermExpr(e.Left) {
			return "LIKE field position does not hold a single term"
		}
		r, ok := e.Right.(*expr.Expression)
		if !ok || r == nil || (r.Op != expr.Wild && r.Op != expr.Regexp) || !IsTermExpr(r) {
			return "LIKE without a pattern on the right"
		}
		return ""
	case expr.Range:
		if !IsTermExpr(e.Left) {
			return "RANGE field position does not hold a single term"
		}
		b, ok := e.Right.(*expr.RangeBoundary)
		if !ok || b == nil {
			return "RANGE without boundaries"
		}
		if !IsTermExpr(b.Min) || !IsTermExpr(b.Max) {
			return "RANGE bound is not a single term"
		}
		return ""
	case expr.In:
		if !IsTermExpr(e.Left) {
			return "IN field position does not hold a single term"
		}
		r, ok := e.Right.(*expr.Expression)
		if !ok || r == nil || r.Op != expr.List {
			return "IN without a list"
		}
		return Shape(r)
	case expr.List:
		if e.Right != nil {
			return "LIST has a right operand"
		}
		l, ok := e.Left.([]*expr.Expression)
		if !ok {
			return fmt.Sprintf("LIST holds %T", e.Left)
		}
		if len(l) < 2 {
			return fmt.Sprintf("LIST with %d values", len(l))
		}
		for _, v := range l {
			if !isPlainValue(v) {
				return "LIST member is not a plain value"
			}
		}
		return ""
	}
	return fmt.Sprintf("unknown operator %d", int(e.Op))
}

// Skeleton prints the operator structure of an expression without its values.
func Skeleton(x any) string {
	var b strings.Builder
	skel(&b, x)
	return b.String()
}

func skel(b *strings.Builder, x any) {
	switch v := x.(type) {
	case nil:
		b.WriteString("_")
	case *expr.Expression:
		if v == nil {
			b.WriteString("nil")
			return
		}
		switch v.Op {
		case expr.Literal:
			switch v.Left.(type) {
			case string:
				b.WriteString("s")
			case int:
				b.WriteString("i")
			case float64:
				b.WriteString("f")
			case expr.Column:
				b.WriteString("c")
			default:
				fmt.Fprintf(b, "?%T", v.Left)
			}
			return
		case expr.Wild:
			b.WriteString("w")
			return
		case expr.Regexp:
			b.WriteString("r")
			return
		}
		b.WriteString(v.Op.String())
		b.WriteString("(")
		skel(b, v.Left)
		if v.Right != nil {
			b.WriteString(",")
			skel(b, v.Right)
		}
		b.WriteString(")")
	case []*expr.Expression:
		b.WriteString("[")
		for i, e := range v {
			if i > 0 {
				b.WriteString(",")
			}
			skel(b, e)
		}
		b.WriteString("]")
	case *expr.RangeBoundary:
		if v == nil {
			b.WriteString("nilb")
			return
		}
		if v.Inclusive {
			b.WriteString("[")
		} else {
			b.WriteString("{")
		}
		skel(b, v.Min)
		b.WriteString("..")
		skel(b, v.Max)
	default:
		fmt.Fprintf(b, "?%T", x)
	}
}
