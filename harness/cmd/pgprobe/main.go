package main

import (
	"fmt"
	"os"

	pg_query "github.com/pganalyze/pg_query_go/v4"
)

func main() {
	r, err := pg_query.Parse(os.Args[1])
	fmt.Println(r, err)
}
