// vcheck runs one property check: supervisor by default, worker with -worker, replay with -replay.
package main

import (
	"flag"
	"fmt"
	"os"
	"strconv"

	"github.com/grindlemire/go-lucene/verif/core"
	_ "github.com/grindlemire/go-lucene/verif/props"
)

func main() {
	var (
		worker  = flag.Bool("worker", false, "run as worker")
		prop    = flag.String("prop", "", "property id")
		tier    = flag.String("tier", "quick", "quick|thorough")
		seed    = flag.Int64("seed", 0, "seed")
		wid     = flag.Int("wid", 0, "worker id")
		nw      = flag.Int("nw", 1, "number of workers")
		out     = flag.String("out", "", "worker output dir")
		replay  = flag.String("replay", "", "replay file")
		verif   = flag.String("verif", "/verif", "verif dir")
		level   = flag.String("level", "exploration", "evidence level")
		workers = flag.Int("workers", 0, "supervisor: number of workers (0 = all cores)")
	)
	flag.Parse()
	if *replay != "" {
		os.Exit(core.Replay(*replay))
	}
	if *worker {
		os.Exit(core.RunWorker(core.WorkerArgs{Prop: *prop, Tier: *tier, Seed: *seed, Worker: *wid, NWorkers: *nw, OutDir: *out}))
	}
	if s := os.Getenv("VERIF_SEED"); s != "" && !flagSet("seed") {
		if v, err := strconv.ParseInt(s, 10, 64); err == nil {
			*seed = v
		}
	}
	exe, err := os.Executable()
	if err != nil {
		fmt.Println("INCONCLUSIVE reason=", err)
		os.Exit(3)
	}
	os.Exit(core.Supervise(core.SuperArgs{Prop: *prop, Tier: *tier, Seed: *seed, Exe: exe, VerifDir: *verif, Level: *level, Workers: *workers}))
}

func flagSet(name string) bool {
	set := false
	flag.Visit(func(f *flag.Flag) {
		if f.Name == name {
			set = true
		}
	})
	return set
}
