// instrument generates a go build overlay in which every function and every loop body of
// the repository's non-test Go files starts with verifrt.Tick() — a logical step counter with
// a budget. The repository itself is not touched.
//
//	instrument <repo dir> <out dir>   writes <out dir>/overlay.json
package main

import (
	"bytes"
	"encoding/json"
	"fmt"
	"go/ast"
	"go/format"
	"go/parser"
	"go/token"
	"os"
	"path/filepath"
	"strings"
)

const rtSrc = `// Package verifrt is the step counter inserted by the verification overlay.
package verifrt

// Ticks counts executed function entries and loop iterations. Budget == 0 means unlimited.
var (
	Ticks  uint64
	Budget uint64
)

// BudgetExceeded is the panic value raised when the step budget is exhausted.
type BudgetExceeded struct{ Ticks uint64 }

// Tick advances the logical clock.
func Tick() {
	Ticks++
	if Budget != 0 && Ticks > Budget {
		// stays armed: every further step of this case fails too, until the harness resets it
		panic(BudgetExceeded{Ticks: Ticks})
	}
}
`

const rtImport = "github.com/grindlemire/go-lucene/internal/verifrt"

func main() {
	if len(os.Args) != 3 {
		fmt.Fprintln(os.Stderr, "usage: instrument <repo> <out>")
		os.Exit(2)
	}
	repo, out := os.Args[1], os.Args[2]
	repo, _ = filepath.Abs(repo)
	out, _ = filepath.Abs(out)
	os.MkdirAll(out, 0o755)
	overlay := map[string]string{}
	nfiles, nticks := 0, 0
	err := filepath.Walk(repo, func(path string, info os.FileInfo, err error) error {
		if err != nil {
			return err
		}
		rel, _ := filepath.Rel(repo, path)
		if info.IsDir() {
			base := info.Name()
			if rel != "." && (strings.HasPrefix(base, ".") || base == "fuzz" || base == "cmd" || base == "vendor" || base == "testdata" || base == "verifhook") {
				return filepath.SkipDir
			}
			return nil
		}
		if !strings.HasSuffix(path, ".go") || strings.HasSuffix(path, "_test.go") {
			return nil
		}
		fset := token.NewFileSet()
		f, err := parser.ParseFile(fset, path, nil, parser.ParseComments)
		if err != nil {
			return fmt.Errorf("%s: %v", path, err)
		}
		n := instrument(f)
		if n == 0 {
			return nil
		}
		var buf bytes.Buffer
		if err := format.Node(&buf, fset, f); err != nil {
			return fmt.Errorf("%s: %v", path, err)
		}
		dst := filepath.Join(out, strings.ReplaceAll(rel, string(filepath.Separator), "__"))
		if err := os.WriteFile(dst, buf.Bytes(), 0o644); err != nil {
			return err
		}
		overlay[path] = dst
		nfiles++
		nticks += n
		return nil
	})
	if err != nil {
		fmt.Fprintln(os.Stderr, "instrument:", err)
		os.Exit(1)
	}
	rt := filepath.Join(out, "verifrt.go")
	os.WriteFile(rt, []byte(rtSrc), 0o644)
	overlay[filepath.Join(repo, "internal", "verifrt", "verifrt.go")] = rt
	b, _ := json.MarshalIndent(map[string]any{"Replace": overlay}, "", " ")
	os.WriteFile(filepath.Join(out, "overlay.json"), b, 0o644)
	fmt.Printf("instrumented %d files, %d tick sites\n", nfiles, nticks)
}

func tickStmt() ast.Stmt {
	return &ast.ExprStmt{X: &ast.CallExpr{Fun: &ast.SelectorExpr{X: ast.NewIdent("verifrt"), Sel: ast.NewIdent("Tick")}}}
}

func instrument(f *ast.File) int {
	n := 0
	ast.Inspect(f, func(node ast.Node) bool {
		switch v := node.(type) {
		case *ast.FuncDecl:
			if v.Body != nil {
				v.Body.List = append([]ast.Stmt{tickStmt()}, v.Body.List...)
				n++
			}
		case *ast.FuncLit:
			v.Body.List = append([]ast.Stmt{tickStmt()}, v.Body.List...)
			n++
		case *ast.ForStmt:
			v.Body.List = append([]ast.Stmt{tickStmt()}, v.Body.List...)
			n++
		case *ast.RangeStmt:
			v.Body.List = append([]ast.Stmt{tickStmt()}, v.Body.List...)
			n++
		}
		return true
	})
	if n > 0 {
		// add the import
		imp := &ast.ImportSpec{Path: &ast.BasicLit{Kind: token.STRING, Value: `"` + rtImport + `"`}}
		decl := &ast.GenDecl{Tok: token.IMPORT, Specs: []ast.Spec{imp}}
		f.Decls = append([]ast.Decl{decl}, f.Decls...)
		f.Imports = append(f.Imports, imp)
	}
	return n
}
