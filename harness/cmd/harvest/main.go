// Command harvest collects the string and integer literals of the repository's non-test Go
// sources. The checks add them to their dictionaries and size lists, so that behaviour keyed on
// a constant that only the code knows (a magic field name, a limit of 1024 clauses, a depth of
// 24) is met by the workload without anybody having to guess the constant.
package main

import (
	"encoding/json"
	"fmt"
	"go/ast"
	"go/parser"
	"go/token"
	"os"
	"path/filepath"
	"sort"
	"strconv"
	"strings"
)

type out struct {
	Strings []string `json:"strings"`
	Ints    []int    `json:"ints"`
	Files   int      `json:"files"`
}

func main() {
	if len(os.Args) < 2 {
		fmt.Fprintln(os.Stderr, "usage: harvest <repo dir>")
		os.Exit(2)
	}
	root := os.Args[1]
	strs := map[string]bool{}
	ints := map[int]bool{}
	files := 0
	fset := token.NewFileSet()
	_ = filepath.Walk(root, func(p string, info os.FileInfo, err error) error {
		if err != nil {
			return nil
		}
		if info.IsDir() {
			b := info.Name()
			if p != root && (strings.HasPrefix(b, ".") || b == "fuzz" || b == "testdata" || b == "verifhook" || b == "vendor") {
				return filepath.SkipDir
			}
			return nil
		}
		if !strings.HasSuffix(p, ".go") || strings.HasSuffix(p, "_test.go") {
			return nil
		}
		f, perr := parser.ParseFile(fset, p, nil, 0)
		if perr != nil {
			return nil
		}
		files++
		imports := map[*ast.BasicLit]bool{}
		for _, im := range f.Imports {
			imports[im.Path] = true
		}
		ast.Inspect(f, func(n ast.Node) bool {
			switch x := n.(type) {
			case *ast.SelectorExpr:
				if id, ok := x.X.(*ast.Ident); ok && id.Name == "math" {
					if v, known := map[string]int{"MaxInt8": 127, "MaxUint8": 255, "MaxInt16": 32767, "MaxUint16": 65535}[x.Sel.Name]; known {
						ints[v] = true
					}
				}
			case *ast.Field:
				if x.Tag != nil {
					imports[x.Tag] = true
				}
			case *ast.BasicLit:
				if imports[x] {
					return true
				}
				switch x.Kind {
				case token.STRING:
					if s, err := strconv.Unquote(x.Value); err == nil && len(s) >= 1 && len(s) <= 80 {
						strs[s] = true
					}
				case token.CHAR:
					if s, err := strconv.Unquote(x.Value); err == nil {
						strs[s] = true
					}
				case token.INT:
					if v, err := strconv.ParseInt(x.Value, 0, 64); err == nil && v >= 2 && v <= 200000 {
						ints[int(v)] = true
					}
				}
			}
			return true
		})
		return nil
	})
	o := out{Files: files}
	for s := range strs {
		o.Strings = append(o.Strings, s)
	}
	for v := range ints {
		o.Ints = append(o.Ints, v)
	}
	sort.Strings(o.Strings)
	sort.Ints(o.Ints)
	_ = json.NewEncoder(os.Stdout).Encode(o)
}
