// vrace is the C14 check: the same supervisor/worker protocol as vcheck, built with -race.
package main

import (
	"flag"
	"fmt"
	"os"
	"path/filepath"
	"strconv"
	"strings"

	"github.com/grindlemire/go-lucene/verif/core"
	_ "github.com/grindlemire/go-lucene/verif/racecheck"
)

func main() {
	var (
		worker = flag.Bool("worker", false, "run as worker")
		prop   = flag.String("prop", "C14", "property id")
		tier   = flag.String("tier", "quick", "quick|thorough")
		seed   = flag.Int64("seed", 0, "seed")
		wid    = flag.Int("wid", 0, "worker id")
		nw     = flag.Int("nw", 1, "number of workers")
		out    = flag.String("out", "", "worker output dir")
		replay = flag.String("replay", "", "replay file")
		verif  = flag.String("verif", "/verif", "verif dir")
	)
	flag.Parse()
	if *replay != "" {
		os.Exit(core.Replay(*replay))
	}
	if *worker {
		os.Exit(core.RunWorker(core.WorkerArgs{Prop: *prop, Tier: *tier, Seed: *seed, Worker: *wid, NWorkers: *nw, OutDir: *out}))
	}
	if s := os.Getenv("VERIF_SEED"); s != "" {
		if v, err := strconv.ParseInt(s, 10, 64); err == nil {
			*seed = v
		}
	}
	exe, err := os.Executable()
	if err != nil {
		fmt.Println("INCONCLUSIVE reason=", err)
		os.Exit(3)
	}
	raceDir := filepath.Join(*verif, "build", "race-"+strconv.Itoa(os.Getpid()))
	os.MkdirAll(raceDir, 0o755)
	defer os.RemoveAll(raceDir)
	code := core.Supervise(core.SuperArgs{
		Prop: *prop, Tier: *tier, Seed: *seed, Exe: exe, VerifDir: *verif, Level: "exploration", Workers: 4,
		ExtraEnv: []string{"GORACE=halt_on_error=0 exitcode=0 log_path=" + filepath.Join(raceDir, "race")},
		PostMerge: func(res *core.Result) {
			files, _ := filepath.Glob(filepath.Join(raceDir, "race*"))
			res.Counters["race_logs_scanned"] = 1
			seen := map[string]bool{}
			for _, f := range files {
				b, err := os.ReadFile(f)
				if err != nil {
					continue
				}
				blocks := strings.Split(string(b), "==================")
				for _, blk := range blocks {
					if !strings.Contains(blk, "WARNING: DATA RACE") {
						continue
					}
					res.Counters["race_reports"]++
					sig := "c14:data-race:" + raceSites(blk)
					res.VioCount[sig]++
					if seen[sig] {
						continue
					}
					seen[sig] = true
					res.Violations = append(res.Violations, core.Violation{Property: *prop, Sig: sig, Msg: blk, Input: "race detector report", Tier: *tier, Seed: *seed})
				}
			}
		},
	})
	os.RemoveAll(raceDir)
	os.Exit(code)
}

// raceSites names a report by the repository functions on its two access stacks.
func raceSites(blk string) string {
	sites := []string{}
	for _, l := range strings.Split(blk, "\n") {
		l = strings.TrimSpace(l)
		if strings.HasPrefix(l, "github.com/grindlemire/go-lucene") && !strings.Contains(l, "/verif/") {
			f := l
			if i := strings.LastIndex(f, "/"); i >= 0 {
				f = f[i+1:]
			}
			if i := strings.Index(f, "("); i >= 0 {
				f = f[:i]
			}
			dup := false
			for _, s := range sites {
				if s == f {
					dup = true
				}
			}
			if !dup {
				sites = append(sites, f)
			}
			if len(sites) == 3 {
				break
			}
		}
	}
	if len(sites) == 0 {
		return "unknown"
	}
	return strings.Join(sites, "+")
}
