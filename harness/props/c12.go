package props

import (
	"bytes"
	"encoding/json"
	"fmt"
	"math/rand"
	"reflect"
	"strconv"
	"strings"
	"unicode/utf8"

	"github.com/grindlemire/go-lucene/pkg/driver"
	"github.com/grindlemire/go-lucene/pkg/lucene/expr"
	"github.com/grindlemire/go-lucene/verif/core"
	"github.com/grindlemire/go-lucene/verif/gen"
	"github.com/grindlemire/go-lucene/verif/mon"
	"github.com/grindlemire/go-lucene/verif/oracle"
	"github.com/grindlemire/go-lucene/verif/qt"
)

// C12: JSON encoding of expressions round-trips.
type c12 struct{}

func init() { core.Register(c12{}) }

func (c12) ID() string { return "C12" }

func (c12) Batches(tier string, seed int64) int { return newSeqPlan(tier, 24, 500).total() + 9 }

var c12Driver = driver.NewPostgresDriver()

func (c12) RunBatch(ctx *core.Ctx, batch int) {
	mon.Install()
	defer monFlush(ctx)
	plan := newSeqPlan(ctx.Tier, 24, 500)
	switch k := batch - plan.total(); k {
	case 0, 1, 2, 3, 4, 5, 6, 7:
		// hostile values in every leaf position (the dictionary is dealt out over eight batches)
		for hi, h := range gen.ValueDict(rand.New(rand.NewSource(ctx.Seed*31+7)), 300) {
			if hi%8 != k || !utf8.ValidString(h) || strings.Contains(h, `"`) {
				continue
			}
			q := qt.Phrase(h).Text
			e := qt.Escaped(h).Text
			ins := []string{q, "a:" + q, q + ":b", "a:[" + q + " TO " + q + "]", "a:{* TO " + q + "}", "a:(" + q + " OR b)", "a:>=" + q, q + "~3", q + "^0.5", "NOT " + q, "+" + q + " -" + q}
			if e != "" {
				ins = append(ins, e, "a:"+e, e+":b", "a:["+e+" TO b]", "a:("+e+" OR "+q+")")
			}
			ins = append(ins, "a:"+h, h, h+":b")
			for _, in := range ins {
				in := in
				ctx.Case(in, func() { c12Check(ctx, "hostile", in) })
			}
		}
		return
	case 8:
		// powers, distances, numbers
		for _, in := range []string{"a~1", "a~0", "a~-2", "a~7", "a^1", "a^1.0", "a^0.5", "a^2", "a^1e3", "a^1e-3", "a^3.25", "(a:b)^2~3", "a:5.0", "a:1e5", "a:1e30", "a:-0.0", "a:0.1", "a:[1.0 TO 2.5]", "a:[1e30 TO *]",
			"a:[5.0 TO 6.0]", "a:(1 OR 2.0 OR 3.5)", "a:(1.0 OR x)", `a:""`, `""`, `a:["" TO ""]`, `a:("" OR "")`, "a:9223372036854775807", "a:9223372036854775808", "a:-9223372036854775808", "a:1e-320", "5:6", "1.5:x", "a:007", "a:0x1p4",
			`a:/C:\\/`, `/foo\\/ OR x:y`, `a:/x\/y/`, `a:/\//`, `a:/a\\\/b/`, `/a b\\/`, `a:[/x\\/ TO b]`, `a:(x OR x)`, `a:(1 OR 1 OR 2)`, `5:c*`, `1.5:/re/`, `a:[5 TO 5]`} {
			in := in
			ctx.Case(in, func() { c12Check(ctx, "numbers", in) })
		}
		// amounts and numbers with many significant digits, tiny and huge magnitudes: an encoder
		// that rounds, clips or reformats a power, a distance or a value shows here
		amounts := []string{"0.1234567", "0.12345678", "1.00000001", "0.30000000000000004", "123456.7890123", "0.0000001", "0.00000012345", "1e-7", "2.5e-7", "1e21", "1e22", "3.4028235e38", "1.7976931348623157e308", "5e-324", "4.9e-324", "0.1", "0.7", "1.1", "2.675", "1e6", "1000000", "1000001", "16777217", "9007199254740993", "0.999999", "0.9999999", "0.99999999", "1.0000001", "1.0000005", "33.333333333333336"}
		rr := ctx.Rand("amounts")
		for i := 0; i < 120; i++ {
			digits := 1 + rr.Intn(17)
			m := ""
			for d := 0; d < digits; d++ {
				m += string(rune('0' + rr.Intn(10)))
			}
			if len(m) > 1 {
				k := 1 + rr.Intn(len(m)-1)
				m = m[:k] + "." + m[k:]
			}
			switch rr.Intn(4) {
			case 0:
				m += fmt.Sprintf("e%d", rr.Intn(31)-10)
			case 1:
				m = "0." + strings.Repeat("0", rr.Intn(9)) + strings.ReplaceAll(m, ".", "")
			}
			amounts = append(amounts, m)
		}
		for _, a := range amounts {
			for _, in := range []string{"a^" + a, "a:b^" + a, "(a OR b:c)^" + a, "a:" + a, "a:[" + a + " TO *]", "a:(" + a + " OR 1)", `"p q"^` + a + " AND x"} {
				in := in
				ctx.Case(in, func() { c12Check(ctx, "numbers", in) })
			}
			ctx.Count("amount_spellings", 1)
		}
		for _, dist := range []string{"2", "100", "255", "256", "65536", "1000000", "2147483647", "2147483648", "4294967296", "9223372036854775807"} {
			for _, in := range []string{"a~" + dist, "a:b~" + dist + " OR c", `"p q"~` + dist} {
				in := in
				ctx.Case(in, func() { c12Check(ctx, "numbers", in) })
			}
		}
		return
	}
	plan.each(ctx, batch, func(kind, in string) {
		if !utf8.ValidString(in) {
			return
		}
		ctx.Case(in, func() { c12Check(ctx, kind, in) })
	})
}

// inferKind is the harness' own statement of how a decoder that sees only the JSON text of a
// leaf types it: integral number => int, other number => float, /.../ => regexp,
// contains * or ? => wildcard, otherwise plain string.
func inferKind(leaf any) (expr.Operator, any, bool) {
	switch v := leaf.(type) {
	case int:
		return expr.Literal, v, true
	case float64:
		b, err := json.Marshal(v)
		if err != nil {
			return 0, nil, false
		}
		if i, err := strconv.Atoi(string(b)); err == nil {
			return expr.Literal, i, true
		}
		f, err := strconv.ParseFloat(string(b), 64)
		if err != nil {
			return 0, nil, false
		}
		return expr.Literal, f, true
	case string:
		if len(v) > 0 && v[0] == '/' && v[len(v)-1] == '/' {
			return expr.Regexp, v, true
		}
		if strings.ContainsAny(v, "*?") {
			return expr.Wild, v, true
		}
		return expr.Literal, v, true
	case expr.Column:
		return expr.Literal, v, true
	}
	return 0, nil, false
}

// rangeBoundInfer mirrors what a decoder can know about a range bound: JSON numbers arrive as
// float64 and become int when integral.
func leafEligible(e *expr.Expression, inRange bool) (ok bool, why string) {
	op, val, known := inferKind(e.Left)
	if !known {
		return false, "unknown-leaf-type"
	}
	if f, isF := e.Left.(float64); isF && inRange {
		// in a range bound the decoder sees a float64 and makes it an int when it is integral
		if f == float64(int(f)) {
			return false, "integral-float"
		}
		return true, ""
	}
	if op != e.Op {
		switch {
		case op == expr.Regexp:
			return false, "slash-delimited-string"
		case op == expr.Wild:
			return false, "string-with-wildcard-char"
		}
		return false, "kind-differs"
	}
	if val != e.Left {
		return false, "integral-float"
	}
	return true, ""
}

// allLeavesEligible walks the tree.
func allLeavesEligible(x any, inRange bool) (bool, string) {
	switch v := x.(type) {
	case *expr.Expression:
		if v == nil {
			return true, ""
		}
		if v.Op == expr.Literal || v.Op == expr.Wild || v.Op == expr.Regexp {
			return leafEligible(v, inRange)
		}
		if ok, why := allLeavesEligible(v.Left, false); !ok {
			return false, why
		}
		return allLeavesEligible(v.Right, false)
	case []*expr.Expression:
		for _, e := range v {
			if ok, why := allLeavesEligible(e, false); !ok {
				return false, why
			}
		}
	case *expr.RangeBoundary:
		if v == nil {
			return true, ""
		}
		if ok, why := allLeavesEligible(v.Min, true); !ok {
			return false, why
		}
		return allLeavesEligible(v.Max, true)
	}
	return true, ""
}

func jsonSkeleton(b []byte) string {
	var v any
	if json.Unmarshal(b, &v) != nil {
		return "?"
	}
	var sb strings.Builder
	var walk func(x any)
	walk = func(x any) {
		switch t := x.(type) {
		case map[string]any:
			sb.WriteString("{")
			if op, ok := t["operator"].(string); ok {
				sb.WriteString(op)
			}
			for _, k := range []string{"left", "right", "min", "max", "distance", "power"} {
				if c, ok := t[k]; ok {
					sb.WriteString(" " + k + ":")
					walk(c)
				}
			}
			sb.WriteString("}")
		case []any:
			sb.WriteString("[")
			for _, c := range t {
				walk(c)
				sb.WriteString(",")
			}
			sb.WriteString("]")
		case string:
			sb.WriteString("s")
		case float64:
			sb.WriteString("n")
		default:
			sb.WriteString("o")
		}
	}
	walk(v)
	return sb.String()
}

var c12Preds [][]byte

// c12Predecessors: encodings whose root has a right operand, a range, a distance and a power.
func c12Predecessors() [][]byte {
	if c12Preds == nil {
		for _, e := range []*expr.Expression{
			expr.AND(expr.Eq("a", "b"), expr.Eq("c", 1)),
			expr.Rang("r", 1, 5, true),
			expr.FUZZY(expr.Eq("f", "g"), 3),
			expr.BOOST(expr.OR(expr.Eq("p", "q"), expr.IN("l", expr.LIST([]*expr.Expression{expr.Lit("x"), expr.Lit("y")}))), 2.5),
		} {
			b, err := json.Marshal(e)
			if err != nil {
				panic(err)
			}
			c12Preds = append(c12Preds, b)
		}
	}
	return c12Preds
}

var c12DefaultFields = []string{"dfield", " dfl", "body\n", "my field", "\u00fcn\u00ef", "a\\b", "\u00a0x\u3000", "AND"}

func c12Check(ctx *core.Ctx, kind, in string) {
	for _, df := range []string{"", c12DefaultFields[ctx.Index()%len(c12DefaultFields)]} {
		e, err, ok := parse(ctx, in, df)
		if !ok || err != nil {
			continue
		}
		ctx.Count("accepted", 1)
		var b []byte
		var merr error
		if !ctx.Call("MarshalJSON", func() { b, merr = json.Marshal(e) }) {
			continue
		}
		if merr != nil {
			ctx.Violate("c12:marshal-fails", "json.Marshal(Parse(%q)) fails: %v", in, merr)
			continue
		}
		var d expr.Expression
		var uerr error
		if !ctx.Call("UnmarshalJSON", func() { uerr = json.Unmarshal(b, &d) }) {
			continue
		}
		if uerr != nil {
			ctx.Violate("c12:unmarshal-fails:"+jsonSkeleton(b), "decoding the encoding of Parse(%q) fails: %v\n  json %s", in, uerr, b)
			continue
		}
		ctx.Count("round_trips", 1)
		// decoding into a value that already holds another expression must give the same result
		// as decoding into a fresh one (a reused variable, a json.Decoder stream)
		if ctx.Index()%4 == 0 {
			for pi, pred := range c12Predecessors() {
				var x expr.Expression
				var e1, e2 error
				if !ctx.Call("UnmarshalJSON(reused)", func() { e1 = json.Unmarshal(pred, &x); e2 = json.Unmarshal(b, &x) }) {
					break
				}
				ctx.Count("reused_receiver_decodes", 1)
				if e1 != nil || e2 != nil || !deepEqual(&x, &d) {
					ctx.Violate("c12:reused-receiver-differs:"+fmt.Sprint(pi), "decoding the encoding of Parse(%q) into a value that held %s gives (err %v/%v)\n  %s\ninstead of\n  %s", in, pred, e1, e2, gostr(&x), gostr(&d))
					break
				}
			}
		}
		var verr error
		if ctx.Call("Validate", func() { verr = expr.Validate(&d) }) && verr != nil {
			ctx.Violate("c12:decoded-invalid:"+errClass(verr), "the decoded encoding of Parse(%q) fails Validate: %v\n  json %s", in, verr, b)
			continue
		}
		var b2 []byte
		var m2 error
		if ctx.Call("MarshalJSON", func() { b2, m2 = json.Marshal(&d) }) {
			if m2 != nil || !bytes.Equal(b, b2) {
				ctx.Violate("c12:reencode-differs:"+jsonSkeleton(b), "re-encoding differs for %q\n  first  %s\n  second %s (err %v)", in, b, b2, m2)
			}
		}
		var s1, s2 string
		if ctx.Call("String", func() { s1, s2 = e.String(), d.String() }) && s1 != s2 {
			ctx.Violate("c12:string-differs:"+jsonSkeleton(b), "String() differs after the round trip of %q: %q vs %q", in, s1, s2)
		}
		var r1, r2 string
		var e1, e2 error
		if ctx.Call("Render", func() { r1, e1 = c12Driver.Render(e); r2, e2 = c12Driver.Render(&d) }) {
			if r1 != r2 || (e1 == nil) != (e2 == nil) {
				ctx.Violate("c12:render-differs:"+jsonSkeleton(b), "inline SQL differs after the round trip of %q: %q (%v) vs %q (%v)", in, r1, e1, r2, e2)
			}
		}
		var p1, p2 string
		var a1, a2 []any
		if ctx.Call("RenderParam", func() { p1, a1, e1 = c12Driver.RenderParam(e); p2, a2, e2 = c12Driver.RenderParam(&d) }) {
			if p1 != p2 || (e1 == nil) != (e2 == nil) || (e1 == nil && !paramsEqual(a1, a2)) {
				ctx.Violate("c12:renderparam-differs:"+jsonSkeleton(b), "parameterized SQL differs after the round trip of %q: %q %v (%v) vs %q %v (%v)", in, p1, a1, e1, p2, a2, e2)
			}
		}
		elig, why := allLeavesEligible(e, false)
		if elig {
			ctx.Count("deepequal_eligible", 1)
			if !deepEqual(e, &d) {
				ctx.Violate("c12:not-deep-equal:"+oracle.Skeleton(e), "every leaf of Parse(%q) has its inferred kind but the decoded tree differs\n  before %s\n  after  %s\n  json %s", in, gostr(e), gostr(&d), b)
			}
		} else {
			ctx.Count("exception_"+why, 1)
		}
		sk := jsonSkeleton(b)
		ctx.Distinct("nontrivial", sk)
		var walkOps func(x any)
		walkOps = func(x any) {
			switch v := x.(type) {
			case *expr.Expression:
				if v != nil {
					ctx.Distinct("operators", v.Op.String())
					walkOps(v.Left)
					walkOps(v.Right)
				}
			case []*expr.Expression:
				for _, c := range v {
					walkOps(c)
				}
			case *expr.RangeBoundary:
				if v != nil {
					walkOps(v.Min)
					walkOps(v.Max)
				}
			}
		}
		walkOps(e)
		if ctx.Index()%701 == 0 {
			ctx.Sample(kind, in+"  =>  "+string(b))
		}
	}
}

func (c12) Finish(res *core.Result, cov map[string]any) []string {
	reasons := []string{}
	cov["distinct_nontrivial"] = res.NDistinct("nontrivial")
	cov["exhaustive"] = true
	cov["operators_seen"] = res.NDistinct("operators")
	cov["rule"] = "every accepted valid-UTF-8 input among token sequences up to length L (exhaustive), depth<=2 trees, fuzzed inputs, hostile values in every leaf position and a fixed list of powers/distances/number spellings, with and without a default field: Marshal, Unmarshal (into a fresh value and into values that already hold another expression), Validate, byte-identical re-encoding, identical String/Render/RenderParam, and DeepEqual whenever every leaf has the kind the harness' own inference assigns to its JSON text (exceptions are counted, not assumed). Non-trivial = distinct JSON skeleton."
	floor(res.Counters["round_trips"] >= 1000, &reasons, "round trips %d", res.Counters["round_trips"])
	floor(res.Counters["deepequal_eligible"] >= 500, &reasons, "DeepEqual-eligible %d", res.Counters["deepequal_eligible"])
	floor(res.NDistinct("operators") >= 19, &reasons, "operators seen %d < 19", res.NDistinct("operators"))
	return reasons
}

// paramsEqual compares parameter lists; an integer-valued float and the int of the same value
// count as the same parameter (the decoder cannot tell 5.0 from 5, which the statement allows).
func paramsEqual(a, b []any) bool {
	if len(a) != len(b) {
		return false
	}
	num := func(x any) (float64, bool) {
		switch v := x.(type) {
		case int:
			return float64(v), true
		case float64:
			return v, true
		}
		return 0, false
	}
	for i := range a {
		if reflect.DeepEqual(a[i], b[i]) {
			continue
		}
		x, ok1 := num(a[i])
		y, ok2 := num(b[i])
		if !ok1 || !ok2 || x != y {
			return false
		}
	}
	return true
}
