//go:build vtick

package props

import (
	"github.com/grindlemire/go-lucene/internal/verifrt"
	"github.com/grindlemire/go-lucene/verif/core"
)

func init() {
	// read without synchronisation from the watchdog goroutine: only "did it change" matters
	core.ProgressProbe = func() uint64 { return verifrt.Ticks }
}

// tickEnabled reports whether the step sanitizer overlay is compiled in.
const tickEnabled = true

func tickStart(budget uint64) { verifrt.Ticks = 0; verifrt.Budget = budget }

func tickStop() uint64 { verifrt.Budget = 0; return verifrt.Ticks }

func isBudgetPanic(r any) (uint64, bool) {
	b, ok := r.(verifrt.BudgetExceeded)
	return b.Ticks, ok
}
