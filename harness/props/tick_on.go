//go:build vtick

package props

import (
	"github.com/grindlemire/go-lucene/internal/verifrt"
	"github.com/grindlemire/go-lucene/verif/core"
)

func init() {
	// read without synchronisation from the watchdog goroutine: only "did it change" matters
	core.ProgressProbe = func() uint64 { return verifrt.Ticks }
	// every guarded call runs under a step budget: the caller's own if it armed one, else the
	// same quadratic allowance from the length of the current input
	core.CallGuard = func(inputLen int) func() {
		if verifrt.Budget != 0 {
			return func() {}
		}
		verifrt.Ticks = 0
		verifrt.Budget = 1000 * uint64(inputLen+16) * uint64(inputLen+16)
		return func() { verifrt.Budget = 0 }
	}
}

// tickEnabled reports whether the step sanitizer overlay is compiled in.
const tickEnabled = true

func tickStart(budget uint64) { verifrt.Ticks = 0; verifrt.Budget = budget }

func tickStop() uint64 { verifrt.Budget = 0; return verifrt.Ticks }

func isBudgetPanic(r any) (uint64, bool) {
	b, ok := r.(verifrt.BudgetExceeded)
	return b.Ticks, ok
}
