package props

import (
	"fmt"
	"strings"
	"unicode"
	"unicode/utf8"

	"github.com/grindlemire/go-lucene/internal/lex"
	"github.com/grindlemire/go-lucene/verif/core"
	"github.com/grindlemire/go-lucene/verif/gen"
	"github.com/grindlemire/go-lucene/verif/mon"
)

// C16: the token stream is a lossless segmentation of the input.
type c16 struct{}

func init() { core.Register(c16{}) }

func (c16) ID() string { return "C16" }

// lexAlphabet: token starters, escapes, quotes, '-', digits, letters that spell keywords,
// multi-byte lead/continuation bytes, 0xFF, NUL and characters that cannot start a token.
var lexAlphabet = []byte{
	'a', 'Z', '5', '0', '_', ' ', '\t', '\n', '\r', '"', '\'', '/', '\\', '*', '?', '-', '+', '.', ':', '=', '<', '>', '~', '^',
	'(', ')', '[', ']', '{', '}', '!', ',', ';', '%', 0x00, 0xc3, 0xa9, 0xff, 'O', 'R',
}

type byteStrings struct {
	alpha []byte
	l     int
	sizes []int
}

func newByteStrings(alpha []byte, l int) *byteStrings {
	b := &byteStrings{alpha: alpha, l: l}
	n := 1
	for k := 0; k < l; k++ {
		n *= len(alpha)
		b.sizes = append(b.sizes, n)
	}
	return b
}

func (b *byteStrings) Size() int {
	s := 1 // the empty string
	for _, n := range b.sizes {
		s += n
	}
	return s
}

func (b *byteStrings) At(i int) string {
	if i == 0 {
		return ""
	}
	i--
	k := 0
	for i >= b.sizes[k] {
		i -= b.sizes[k]
		k++
	}
	out := make([]byte, k+1)
	for j := k; j >= 0; j-- {
		out[j] = b.alpha[i%len(b.alpha)]
		i /= len(b.alpha)
	}
	return string(out)
}

type c16Plan struct {
	bs    *byteStrings
	nEnum int
	nDict int
	nFuzz int
	nRune int
}

func newC16Plan(tier string) *c16Plan {
	p := &c16Plan{}
	if tier == "thorough" {
		p.bs = newByteStrings(lexAlphabet, 4)
		p.nFuzz = 300
	} else {
		p.bs = newByteStrings(lexAlphabet, 3)
		p.nFuzz = 24
	}
	p.nEnum = nBatches(p.bs.Size())
	p.nDict = 1
	p.nRune = 17 // the BMP in 16 slices + a stride sample of the astral planes
	if tier == "thorough" {
		p.nRune = 16 + 64 // every Unicode code point
	}
	return p
}

func (c16) Batches(tier string, seed int64) int {
	p := newC16Plan(tier)
	return p.nEnum + p.nDict + p.nFuzz + p.nRune
}

func (c16) RunBatch(ctx *core.Ctx, batch int) {
	mon.Install()
	p := newC16Plan(ctx.Tier)
	switch {
	case batch < p.nEnum:
		lo, hi := batchRange(p.bs.Size(), batch)
		for i := lo; i < hi; i++ {
			in := p.bs.At(i)
			ctx.Case(in, func() { c16Check(ctx, "enum", in) })
		}
	case batch < p.nEnum+p.nDict:
		ins := []string{}
		for _, h := range gen.HostileStrings {
			ins = append(ins, h, "a:"+h, `"`+h, `"`+h+`"`, "/"+h, "/"+h+"/", h+`\`, h+"-", "a "+h+" b", `a:\`+h)
		}
		for _, s := range gen.RepoSeeds {
			ins = append(ins, s, s+`"`, s+"/", s+"!", s+`\`, "'"+s)
		}
		rv := ctx.Rand("random-values")
		for i := 0; i < 3000; i++ {
			h := gen.RandString(rv)
			ins = append(ins, h, "a:"+h, h+" b", "x "+h, `"`+h+`"`, "/"+h+"/", h+h)
		}
		// two different exotic characters in one input: every opening with every closing
		// punctuation / quotation mark, around a phrase, a value and nothing
		for _, pr := range [][2]*unicode.RangeTable{{unicode.Pi, unicode.Pf}, {unicode.Ps, unicode.Pe}, {unicode.Pi, unicode.Pi}, {unicode.Pf, unicode.Pi}} {
			opens, closes := tableRunes(pr[0]), tableRunes(pr[1])
			for _, o := range opens {
				for _, c := range closes {
					if o < 0x80 || c < 0x80 {
						continue
					}
					ins = append(ins, string(o)+"a b"+string(c), "x:"+string(o)+"a"+string(c), "("+string(o)+string(c)+")")
					ctx.Count("punctuation_pairs", 1)
				}
			}
		}
		for _, in := range ins {
			in := in
			ctx.Case(in, func() { c16Check(ctx, "dict", in) })
		}
	case batch >= p.nEnum+p.nDict+p.nFuzz:
		// every code point (quick: the whole BMP and every 61st astral one) alone, after a word,
		// inside a word and in field position
		k := batch - (p.nEnum + p.nDict + p.nFuzz)
		lo, hi, step := rune(k*0x1000), rune((k+1)*0x1000), rune(1)
		if k >= 16 {
			if ctx.Thorough() {
				lo, hi = rune(0x10000+(k-16)*0x4000), rune(0x10000+(k-15)*0x4000)
			} else {
				lo, hi, step = 0x10000, 0x110000, 61
			}
		}
		for r := lo; r < hi; r += step {
			if r >= 0xd800 && r < 0xe000 {
				continue
			}
			c := string(r)
			ctx.Count("code_points", 1)
			if canStartToken(r) {
				ctx.Count("code_points_token_start", 1)
			}
			for _, in := range []string{c, "a " + c, "a" + c + "b", c + ":x", "(" + c + ")"} {
				in := in
				ctx.Case(in, func() { c16Check(ctx, "rune", in) })
			}
		}
	default:
		r := ctx.Rand("fuzz")
		f := gen.NewFuzzer(r, gen.RepoSeeds, gen.FuzzDict)
		f.Run(5000, func(in string) {
			ctx.Case(in, func() { c16Check(ctx, "fuzz", in) })
		})
	}
}

func tableRunes(t *unicode.RangeTable) []rune {
	out := []rune{}
	for _, r16 := range t.R16 {
		for r := rune(r16.Lo); r <= rune(r16.Hi); r += rune(r16.Stride) {
			out = append(out, r)
		}
	}
	for _, r32 := range t.R32 {
		for r := rune(r32.Lo); r <= rune(r32.Hi); r += rune(r32.Stride) {
			out = append(out, r)
		}
	}
	return out
}

func isWS(b byte) bool { return b == ' ' || b == '\t' || b == '\r' || b == '\n' }

// canStartToken is the harness' own statement of which runes may begin a token.
func canStartToken(r rune) bool {
	if r == '_' || unicode.IsLetter(r) || unicode.IsDigit(r) {
		return true
	}
	switch r {
	case '*', '?', '\\', '(', ')', '[', ']', '{', '}', ':', '+', '=', '>', '~', '^', '<', '-', '"', '\'', '/':
		return true
	}
	return false
}

func c16Check(ctx *core.Ctx, kind, in string) {
	var toks []lex.Token
	okLex := ctx.Call("Lexer.Next", func() {
		l := lex.Lex(in)
		for i := 0; i < len(in)+8; i++ {
			t := l.Next()
			toks = append(toks, t)
			if t.Typ == lex.TEOF || t.Typ == lex.TErr {
				// after the end or an error: end-of-input forever
				for k := 0; k < 3; k++ {
					t2 := l.Next()
					if t2.Typ != lex.TEOF {
						ctx.Violate("c16:token-after-end", "input %q: token %v %q after %v", in, t2.Typ, t2.Val, t.Typ)
					}
					p := l.Peek()
					if p.Typ != lex.TEOF {
						ctx.Violate("c16:peek-after-end", "input %q: Peek returns %v %q after the end", in, p.Typ, p.Val)
					}
				}
				return
			}
		}
	})
	if !okLex {
		return
	}
	if len(toks) == 0 {
		return
	}
	last := toks[len(toks)-1]
	if last.Typ != lex.TEOF && last.Typ != lex.TErr {
		ctx.Violate("c16:unbounded-stream", "input %q (%d bytes) produced more than %d tokens", in, len(in), len(toks))
		return
	}
	if len(toks)-1 > len(in) {
		ctx.Violate("c16:too-many-tokens", "input %q (%d bytes) produced %d tokens", in, len(in), len(toks)-1)
	}
	// cursor walk
	pos := 0
	skip := func() {
		for pos < len(in) && isWS(in[pos]) {
			pos++
		}
	}
	for _, t := range toks[:len(toks)-1] {
		ctx.Count("tok_"+t.Typ.String(), 1)
		skip()
		if t.Val == "" {
			ctx.Violate("c16:empty-token", "input %q: empty %v token at offset %d", in, t.Typ, pos)
			return
		}
		if len(in)-pos < len(t.Val) || in[pos:pos+len(t.Val)] != t.Val {
			ctx.Violate("c16:not-a-segmentation:"+t.Typ.String(), "input %q: token %v %q does not match the input at offset %d", in, t.Typ, t.Val, pos)
			return
		}
		// a character that cannot start a token is a lexical error, never the start of a token
		if fr, _ := utf8.DecodeRuneInString(t.Val); !canStartToken(fr) {
			ctx.Violate("c16:token-starts-with-bad-character:"+t.Typ.String(), "input %q: token %v %q at offset %d starts with %q (U+%04X), which cannot start a token; no lexical error was raised", in, t.Typ, t.Val, pos, string(fr), fr)
			return
		}
		// a bare word holds word characters only (letters, digits, '_', wildcards, '.', '-') and
		// backslash-escaped characters; anything else ends the word and starts the next token
		if t.Typ == lex.TLiteral {
			for i := 0; i < len(t.Val); {
				r, w := utf8.DecodeRuneInString(t.Val[i:])
				switch {
				case r == '\\':
					i += w
					if i < len(t.Val) {
						_, w2 := utf8.DecodeRuneInString(t.Val[i:])
						i += w2
					}
					continue
				case r == '_' || r == '*' || r == '?' || r == '.' || r == '-' || unicode.IsLetter(r) || unicode.IsDigit(r):
					i += w
					continue
				}
				ctx.Violate("c16:word-token-holds-non-word-character", "input %q: word token %q at offset %d contains %q (U+%04X), which is no word character: the word should have ended there", in, t.Val, pos, string(r), r)
				return
			}
		}
		// an unterminated quote or regexp is a lexical error, never a token: a quoted token ends at
		// the first matching quote, a regexp token at the first unescaped slash
		switch t.Typ {
		case lex.TQuoted:
			q := t.Val[0]
			if len(t.Val) < 2 || (q != '"' && q != '\'') || t.Val[len(t.Val)-1] != q || strings.IndexByte(t.Val[1:len(t.Val)-1], q) >= 0 {
				ctx.Violate("c16:quoted-token-not-delimited", "input %q: quoted token %q at offset %d is not exactly one quote-delimited run", in, t.Val, pos)
				return
			}
		case lex.TRegexp:
			okRe := len(t.Val) >= 2 && t.Val[0] == '/' && t.Val[len(t.Val)-1] == '/'
			if okRe {
				esc := false
				for i := 1; i < len(t.Val); i++ {
					c := t.Val[i]
					switch {
					case esc:
						esc = false
						if i == len(t.Val)-1 {
							okRe = false // the closing slash is escaped
						}
					case c == '\\':
						esc = true
					case c == '/' && i != len(t.Val)-1:
						okRe = false
					}
				}
			}
			if !okRe {
				ctx.Violate("c16:regexp-token-not-delimited", "input %q: regexp token %q at offset %d is not exactly one slash-delimited run", in, t.Val, pos)
				return
			}
		}
		pos += len(t.Val)
	}
	skip()
	if last.Typ == lex.TEOF {
		if pos != len(in) {
			ctx.Violate("c16:lost-tail", "input %q: end of input reported with %q unread", in, in[pos:])
			return
		}
		ctx.Count("streams_eof", 1)
	} else {
		// the error must have one of the three stated causes at this position
		cause := ""
		if pos >= len(in) {
			ctx.Violate("c16:error-at-end", "input %q: lexical error %q although every byte was tokenised", in, last.Val)
			return
		}
		r, _ := utf8.DecodeRuneInString(in[pos:])
		switch {
		case r == '"' || r == '\'':
			closed := false
			for _, c := range in[pos+1:] {
				if c == r {
					closed = true
					break
				}
			}
			if closed {
				ctx.Violate("c16:spurious-error:quote", "input %q: error %q at offset %d although the quote is closed", in, last.Val, pos)
				return
			}
			cause = "unterminated-quote"
		case r == '/':
			closed := false
			esc := false
			for _, c := range in[pos+1:] {
				if esc {
					esc = false
					continue
				}
				if c == '\\' {
					esc = true
					continue
				}
				if c == '/' {
					closed = true
					break
				}
			}
			if closed {
				ctx.Violate("c16:spurious-error:regexp", "input %q: error %q at offset %d although the regexp is closed", in, last.Val, pos)
				return
			}
			cause = "unterminated-regexp"
		case !canStartToken(r):
			cause = "bad-character"
		default:
			ctx.Violate("c16:spurious-error:char", "input %q: error %q at offset %d before %q which can start a token", in, last.Val, pos, string(r))
			return
		}
		ctx.Count("error_"+cause, 1)
		// Parse must fail
		_, err, ok := parse(ctx, in, "")
		if ok && err == nil {
			ctx.Violate("c16:parse-accepts-lex-error:"+cause, "input %q has a lexical error (%s) but Parse succeeds", in, cause)
		}
		_, err, ok = parse(ctx, in, "df")
		if ok && err == nil {
			ctx.Violate("c16:parse-accepts-lex-error:"+cause, "input %q has a lexical error (%s) but Parse with a default field succeeds", in, cause)
		}
	}
	if len(toks) > 2 || last.Typ == lex.TErr {
		ctx.Distinct("nontrivial", in)
	}
	// Peek purity: a second lexer driven by a Next/Peek script must produce the same stream
	r := ctx.Rand(fmt.Sprint("peek", ctx.Index()))
	ctx.Call("Lexer.Peek", func() {
		l := lex.Lex(in)
		for i, want := range toks {
			for k := r.Intn(3); k > 0; k-- {
				p := l.Peek()
				ctx.Count("peeks", 1)
				if p != want {
					ctx.Violate("c16:peek-differs", "input %q: Peek before token %d returned %v %q, the stream has %v %q", in, i, p.Typ, p.Val, want.Typ, want.Val)
					return
				}
			}
			got := l.Next()
			if got != want {
				ctx.Violate("c16:peek-disturbs", "input %q: token %d is %v %q after peeking, %v %q without", in, i, got.Typ, got.Val, want.Typ, want.Val)
				return
			}
		}
		// the stream that was read with peeks must stay at end-of-input as well
		for k := 0; k < 4; k++ {
			var t lex.Token
			if (k+r.Intn(2))%2 == 0 {
				t = l.Next()
			} else {
				t = l.Peek()
			}
			if t.Typ != lex.TEOF {
				ctx.Violate("c16:token-after-end:peeked-stream", "input %q: %v %q is returned after the end of a stream that was read with interleaved Peeks", in, t.Typ, t.Val)
				return
			}
		}
	})
	// all-peek script: Peek before every single Next, and only before the first one
	for _, mode := range []int{0, 1} {
		ctx.Call("Lexer.Peek", func() {
			l := lex.Lex(in)
			for i, want := range toks {
				if mode == 0 || i == 0 {
					if p := l.Peek(); p != want {
						ctx.Violate("c16:peek-differs", "input %q: Peek before token %d returned %v %q, the stream has %v %q", in, i, p.Typ, p.Val, want.Typ, want.Val)
						return
					}
				}
				if got := l.Next(); got != want {
					ctx.Violate("c16:peek-disturbs", "input %q: token %d is %v %q after peeking, %v %q without", in, i, got.Typ, got.Val, want.Typ, want.Val)
					return
				}
			}
			for k := 0; k < 3; k++ {
				if t := l.Next(); t.Typ != lex.TEOF {
					ctx.Violate("c16:token-after-end:peeked-stream", "input %q: %v %q is returned by Next after the end of a stream that was read with Peeks", in, t.Typ, t.Val)
					return
				}
				if t := l.Peek(); t.Typ != lex.TEOF {
					ctx.Violate("c16:token-after-end:peeked-stream", "input %q: %v %q is returned by Peek after the end of a stream that was read with Peeks", in, t.Typ, t.Val)
					return
				}
			}
		})
	}
	if ctx.Index()%1013 == 0 {
		ctx.Sample(kind, in)
	}
}

func (c16) Finish(res *core.Result, cov map[string]any) []string {
	reasons := []string{}
	cov["distinct_nontrivial"] = res.NDistinct("nontrivial")
	cov["exhaustive"] = true
	cov["rule"] = "every byte string of length <= 3 (quick) / <= 4 (thorough) over a 40-byte alphabet (exhaustive), hostile dictionary strings in lexer-relevant positions, every code point of the BMP and a stride sample of the astral planes (thorough: every code point) alone / after a word / inside a word / in field position / in parentheses, every pair of opening and closing punctuation or quotation marks around a phrase, and a seeded byte fuzzer. For each input: cursor walk of the token texts over the input, end-of-input stickiness, token count bound, every token's first character and every word token's characters checked against the harness' own character classes, quoted / regexp tokens exactly one delimited run, error-cause recomputation from the bytes, Parse must fail on a lexical error, and a twin lexer driven by a seeded Next/Peek script. Non-trivial = distinct input with >= 2 tokens or a lexical error."
	floor(res.Counters["code_points"] >= 60000 && res.Counters["code_points_token_start"] >= 1000, &reasons, "code points %d (token starters %d)", res.Counters["code_points"], res.Counters["code_points_token_start"])
	for _, k := range []string{"error_bad-character", "error_unterminated-quote", "error_unterminated-regexp", "streams_eof", "peeks"} {
		floor(res.Counters[k] > 0, &reasons, "%s never observed", k)
	}
	for _, t := range []string{"tLITERAL", "tQUOTED", "tREGEXP", "tEQUAL", "tGREATER", "tLESS", "tCOLON", "tPLUS", "tMINUS", "tTILDE", "tCARROT", "tLPAREN", "tRPAREN", "tLSQUARE", "tRSQUARE", "tLCURLY", "tRCURLY"} {
		floor(res.Counters["tok_"+t] > 0, &reasons, "token type %s never observed", t)
	}
	return reasons
}
