package props

import (
	"fmt"
	"math/rand"
	"strconv"
	"strings"

	lucene "github.com/grindlemire/go-lucene"
	"github.com/grindlemire/go-lucene/verif/core"
	"github.com/grindlemire/go-lucene/verif/mon"
	"github.com/grindlemire/go-lucene/verif/oracle"
	"github.com/grindlemire/go-lucene/verif/qt"
)

// C03: inline SQL selects exactly the rows the query means.
type c03 struct{}

func init() { core.Register(c03{}) }

func (c03) ID() string { return "C03" }

// ---------------------------------------------------------------------------------------------
// leaf classes

// valGen draws a value of one kind; draw 0 is the fixed representative.
type valGen struct {
	name string
	num  bool
	gen  func(r *rand.Rand, draw int) qt.Value
}

func pick[T any](r *rand.Rand, draw int, xs []T) T {
	if draw < len(xs) {
		return xs[draw]
	}
	return xs[r.Intn(len(xs))]
}

var (
	vgInt = valGen{"int", true, func(r *rand.Rand, d int) qt.Value {
		fixed := []int{5, 0, 1, 7, 42, 1000000, 2147483648, 999999999999}
		if d < len(fixed) {
			return qt.Int(fixed[d])
		}
		if spell := []string{"010", "017", "0123", "00", "0777", "0010"}; d < len(fixed)+len(spell) {
			return qt.IntText(spell[d-len(fixed)]) // leading zeros: still decimal
		}
		return qt.Int(r.Intn(2000000) - 1000)
	}}
	vgNegInt = valGen{"negint", true, func(r *rand.Rand, d int) qt.Value {
		fixed := []int{-3, -1, -1000000, -2147483649}
		if d < len(fixed) {
			return qt.Int(fixed[d])
		}
		return qt.Int(-1 - r.Intn(100000))
	}}
	vgFloat2 = valGen{"float2", true, func(r *rand.Rand, d int) qt.Value {
		fixed := []string{"1.5", "-0.25", "10.75", "0.5", "99.99"}
		if d < len(fixed) {
			return qt.Float(fixed[d])
		}
		return qt.Float(strconv.FormatFloat(float64(r.Intn(20000)-10000)/100+0.01*float64(1+r.Intn(98)), 'f', 2, 64))
	}}
	vgFloatN = valGen{"floatN", true, func(r *rand.Rand, d int) qt.Value {
		fixed := []string{"0.001", "0.0015", "1234.56789", "-0.000001", "3.14159265358979", "1e-7", "2.5e-3", "0.125"}
		if d < len(fixed) {
			return qt.Float(fixed[d])
		}
		// plain decimal spelling: an exponent with a + sign would not be one token ("+" is a symbol)
		f := r.Float64()*float64(int64(1)<<uint(r.Intn(40)))/1e6 + 1e-9
		txt := strconv.FormatFloat(f, 'f', 3+r.Intn(9), 64)
		if v, err := strconv.ParseFloat(txt, 64); err != nil || v == float64(int64(v)) {
			txt = "0.125"
		}
		return qt.Float(txt)
	}}
	// integers at the edges of the float32 / int32 / float64 / int64 ranges, where a detour through
	// another number type silently changes the value
	vgIntEdge = valGen{"intEdge", true, func(r *rand.Rand, d int) qt.Value {
		return qt.Int(pick(r, d, []int{16777217, 2147483647, 4294967297, 9007199254740991, 9007199254740993, 9007199254740995, 1234567890123456789, 9223372036854775806, 9223372036854775807, -9223372036854775808, -9007199254740993, 36028797018963969, 99999999999999999, -2147483649}))
	}}
	// decimals at the same edges: whole-valued beyond int64, just above 2^24 / 2^53, many digits
	vgFloatEdge = valGen{"floatEdge", true, func(r *rand.Rand, d int) qt.Value {
		return qt.Float(pick(r, d, []string{"9.5e18", "9500000000000000000.0", "9.3e18", "-9.5e18", "9223372036854775808", "9223372036854775808.0", "18446744073709551616", "1e19", "9007199254740993.0", "16777217.5", "4294967296.5", "100000.00001", "3.14159265", "-9223372036854775809"}))
	}}
	vgFloatBig = valGen{"floatBig", true, func(r *rand.Rand, d int) qt.Value {
		return qt.Float(pick(r, d, []string{"1e30", "2.5e21", "1e21", "123456789012345678901234.5", "1.5e300"}))
	}}
	vgFloatWhole = valGen{"floatWhole", true, func(r *rand.Rand, d int) qt.Value {
		return qt.Float(pick(r, d, []string{"5.0", "1e5", "100.00", "2e6", "-7.0"}))
	}}
	vgWord = valGen{"word", false, func(r *rand.Rand, d int) qt.Value {
		fixed := []string{"foo", "bar", "a", "zzz", "Foo", "x1", "ünï", "日本"}
		if d < len(fixed) {
			return qt.Word(fixed[d])
		}
		n := 1 + r.Intn(6)
		b := make([]byte, n)
		for i := range b {
			b[i] = "abcdefghijklmnopqrstuvwxyzABCXYZ"[r.Intn(32)]
		}
		if isKeyword(string(b)) {
			b = append(b, 'q')
		}
		return qt.Word(string(b))
	}}
	vgPhrase = valGen{"phrase", false, func(r *rand.Rand, d int) qt.Value {
		return qt.Phrase(pick(r, d, []string{"foo bar", "a b c", " lead", "trail ", "two  spaces", "tab\there", "new\nline", "AND", "5", "1.5", "a:b", "(x)", "[1 TO 2]", "-x", "+x", "x~2", "/re/"}))
	}}
	vgComma = valGen{"comma", false, func(r *rand.Rand, d int) qt.Value {
		return qt.Phrase(pick(r, d, []string{"x,y", ",", "a, b", ", ", "1,2", "',", "x) , (y"}))
	}}
	vgQuote = valGen{"quote", false, func(r *rand.Rand, d int) qt.Value {
		return qt.Phrase(pick(r, d, []string{"it's", "'", "''", "a'b'c", "'); DROP TABLE t; --", `\'`, `a\`, `\\`, "$$", "'x'"}))
	}}
	vgMeta = valGen{"meta", false, func(r *rand.Rand, d int) qt.Value {
		return qt.Phrase(pick(r, d, []string{"100%", "a_b", "%", "_", "a|b", "(a)", "[a-z]", "a+", "*", "?", "a*", "x?y"}))
	}}
	vgEmpty   = valGen{"empty", false, func(r *rand.Rand, d int) qt.Value { return qt.Phrase("") }}
	vgEscaped = valGen{"escaped", false, func(r *rand.Rand, d int) qt.Value {
		return qt.Escaped(pick(r, d, []string{"x:y", "a b", "(1+1):2", "a*b", "q?", "-x", "a/b", `a\b`, "x,y", "it's"}))
	}}
)

type wildGen struct {
	name string
	pats []string
}

var wildGens = []wildGen{
	{"suffix-star", []string{"a*", "foo*", "x1*", "ü*"}},
	{"prefix-star", []string{"*a", "*foo"}},
	{"inner-question", []string{"a?b", "fo?", "?oo", "a??b"}},
	{"lone-star", []string{"*"}},
	{"lone-question", []string{"?", "??"}},
	{"mixed", []string{"a*b?c", "*a*", "?*", "a*?"}},
	{"dot-dash", []string{"a.b*", "a-b?", "1.5*", "x-*"}},
	{"underscore", []string{"a_b*", "_*", "x_?", "a_*_b"}},
}

// leafCase is one generated leaf with its class signature.
type leafCase struct {
	class string
	node  *qt.Node
	df    string // default field the leaf is rendered with ("" = none); bare terms mean df:term
}

// scopeBare returns the meaning of a tree under a default field: every bare term t is df:t.
func scopeBare(t *qt.Node, df string) *qt.Node {
	if df == "" {
		return t
	}
	c := t.Clone()
	var walk func(n *qt.Node) *qt.Node
	walk = func(n *qt.Node) *qt.Node {
		if n.Kind == qt.KTerm {
			return qt.F(df, n.Val)
		}
		for i, k := range n.Kids {
			n.Kids[i] = walk(k)
		}
		return n
	}
	return walk(c)
}

func numField(v qt.Value) string {
	if v.IsNum() {
		return "n"
	}
	return "s"
}

// leafClasses enumerates the class space exhaustively; draws is the number of value draws per class.
func leafClasses(r *rand.Rand, draws int) []leafCase {
	out := []leafCase{}
	eqKinds := []valGen{vgInt, vgNegInt, vgIntEdge, vgFloatEdge, vgFloat2, vgFloatN, vgFloatBig, vgFloatWhole, vgWord, vgPhrase, vgComma, vgQuote, vgMeta, vgEmpty, vgEscaped}
	for _, g := range eqKinds {
		for d := 0; d < draws; d++ {
			v := g.gen(r, d)
			out = append(out, leafCase{"eq:" + g.name, qt.F(numField(v), v), ""})
		}
	}
	cmpKinds := []valGen{vgInt, vgNegInt, vgIntEdge, vgFloatEdge, vgFloat2, vgFloatN, vgFloatBig, vgWord, vgPhrase, vgComma, vgQuote}
	for _, op := range []string{">", ">=", "<", "<="} {
		for _, g := range cmpKinds {
			for d := 0; d < draws; d++ {
				v := g.gen(r, d)
				out = append(out, leafCase{"cmp" + op + ":" + g.name, qt.Cmp(numField(v), op, v), ""})
			}
		}
	}
	type pair struct {
		name   string
		lo, hi valGen
	}
	pairs := []pair{
		{"int-int", vgInt, vgInt}, {"negint-int", vgNegInt, vgInt}, {"float2-float2", vgFloat2, vgFloat2}, {"floatN-floatN", vgFloatN, vgFloatN},
		{"int-floatN", vgInt, vgFloatN}, {"float2-int", vgFloat2, vgInt}, {"floatWhole-floatBig", vgFloatWhole, vgFloatBig},
		{"intEdge-intEdge", vgIntEdge, vgIntEdge}, {"int-intEdge", vgInt, vgIntEdge}, {"floatEdge-floatEdge", vgFloatEdge, vgFloatEdge}, {"intEdge-floatEdge", vgIntEdge, vgFloatEdge},
		{"word-word", vgWord, vgWord}, {"phrase-phrase", vgPhrase, vgPhrase}, {"comma-comma", vgComma, vgWord}, {"quote-quote", vgQuote, vgQuote}, {"empty-word", vgEmpty, vgWord},
	}
	for _, incl := range []bool{true, false} {
		br := "{}"
		if incl {
			br = "[]"
		}
		for _, p := range pairs {
			for _, open := range []string{"none", "left", "right"} {
				for d := 0; d < draws; d++ {
					lo, hi := p.lo.gen(r, d), p.hi.gen(r, d+1)
					if open == "none" {
						// order the bounds so that the range is not trivially empty (most of the time)
						if lo.IsNum() && hi.IsNum() && oracle.NumOf(lo).Cmp(oracle.NumOf(hi)) > 0 {
							lo, hi = hi, lo
						}
						if lo.IsString() && hi.IsString() && lo.S > hi.S {
							lo, hi = hi, lo
						}
					}
					f := numField(lo)
					switch open {
					case "left":
						lo = qt.Open()
						f = numField(hi)
					case "right":
						hi = qt.Open()
					}
					kind := p.name
					if open == "left" {
						kind = p.hi.name
					} else if open == "right" {
						kind = p.lo.name
					}
					out = append(out, leafCase{"range:" + br + ":" + open + ":" + kind, qt.Range(f, lo, hi, incl), ""})
					if open == "none" && d < 2 {
						// the same bounds the other way round: a range that holds nothing must stay empty
						out = append(out, leafCase{"range:" + br + ":" + open + ":" + kind, qt.Range(f, hi, lo, incl), ""})
					}
				}
			}
		}
		out = append(out, leafCase{"range:" + br + ":both:num", qt.Range("n", qt.Open(), qt.Open(), incl), ""})
		out = append(out, leafCase{"range:" + br + ":both:str", qt.Range("s", qt.Open(), qt.Open(), incl), ""})
	}
	listKinds := [][]valGen{{vgIntEdge, vgFloatEdge, vgInt}, {vgInt, vgInt}, {vgInt, vgFloatN, vgNegInt}, {vgFloat2, vgFloatWhole}, {vgWord, vgWord}, {vgPhrase, vgComma, vgQuote}, {vgWord, vgEmpty}, {vgMeta, vgEscaped, vgWord}}
	for _, lk := range listKinds {
		names := []string{}
		for _, g := range lk {
			names = append(names, g.name)
		}
		for d := 0; d < draws; d++ {
			vals := []qt.Value{}
			for i, g := range lk {
				vals = append(vals, g.gen(r, d+i))
			}
			out = append(out, leafCase{"list:" + strings.Join(names, ","), qt.List(numField(vals[0]), vals...), ""})
		}
	}
	for _, wg := range wildGens {
		for d := 0; d < draws && d < len(wg.pats)*3; d++ {
			p := wg.pats[d%len(wg.pats)]
			out = append(out, leafCase{"wild:" + wg.name, qt.F("s", qt.Wild(p)), ""})
		}
	}
	// bare terms under a default field are field-scoped terms too
	for _, g := range []valGen{vgWord, vgInt, vgNegInt, vgIntEdge, vgFloatEdge, vgFloat2, vgFloatN, vgPhrase, vgQuote, vgComma, vgMeta, vgEmpty, vgEscaped} {
		for d := 0; d < draws; d++ {
			v := g.gen(r, d)
			out = append(out, leafCase{"bare-default-field:" + g.name, qt.T(v), numField(v)})
		}
	}
	for _, wg := range wildGens {
		for d := 0; d < draws && d < len(wg.pats); d++ {
			out = append(out, leafCase{"bare-default-field:wild:" + wg.name, qt.T(qt.Wild(wg.pats[d])), "s"})
		}
	}
	return out
}

// fragLeaves is the leaf alphabet of compounds: one clean representative per leaf form.
func fragLeaves(full bool) []*qt.Node {
	ls := []*qt.Node{
		qt.F("s", qt.Word("foo")), qt.F("n", qt.Int(5)), qt.Cmp("n", ">=", qt.Int(4)), qt.Range("n", qt.Int(1), qt.Int(5), true),
		qt.List("s", qt.Word("x"), qt.Word("y")), qt.F("s", qt.Wild("fo*")), qt.Cmp("m", "<", qt.Float("2.5")), qt.F("t", qt.Phrase("it's")),
		// a field name that begins with a digit: behind a + or - the sign is a prefix operator
		qt.Range("2b", qt.Int(1), qt.Int(5), true),
	}
	if full {
		ls = append(ls,
			qt.Range("n", qt.Int(2), qt.Open(), false), qt.Range("m", qt.Open(), qt.Float("0.125"), true), qt.Range("m", qt.Float("1.5"), qt.Float("2.5"), false),
			qt.List("n", qt.Int(1), qt.Int(2), qt.Int(-3)), qt.F("t", qt.Wild("a?c")), qt.Cmp("t", ">", qt.Word("m")), qt.Cmp("n", "<=", qt.Int(-4)), qt.F("m", qt.Float("0.001")),
			qt.Range("s", qt.Word("aa"), qt.Word("zz"), true), qt.F("1a", qt.Word("b")), qt.List("3c", qt.Int(1), qt.Int(2)), qt.Cmp("4d", ">", qt.Int(5)),
		)
	}
	return ls
}

var fragUnary = []func(*qt.Node) *qt.Node{qt.Not, qt.Must, qt.MustNot}

// fragSpace is the depth<=2 space of compounds over the fragment.
type fragSpace struct {
	d1 []*qt.Node
}

func newFragSpace(full bool) *fragSpace {
	s := &fragSpace{}
	leaves := fragLeaves(full)
	s.d1 = append(s.d1, leaves...)
	for _, u := range fragUnary {
		for _, l := range leaves {
			s.d1 = append(s.d1, u(l))
		}
	}
	for _, b := range qt.BinaryOps {
		for _, l := range leaves {
			for _, r := range leaves {
				s.d1 = append(s.d1, b(l, r))
			}
		}
	}
	return s
}

func (s *fragSpace) Size() int { n := len(s.d1); return n + 3*n + 2*n*n }

func (s *fragSpace) At(i int) *qt.Node {
	n := len(s.d1)
	if i < n {
		return s.d1[i]
	}
	i -= n
	if i < 3*n {
		return fragUnary[i/n](s.d1[i%n])
	}
	i -= 3 * n
	b := i / (n * n)
	i %= n * n
	return qt.BinaryOps[b](s.d1[i/n], s.d1[i%n])
}

func randomFrag(r *rand.Rand, leaves []*qt.Node, depth int) *qt.Node {
	if depth <= 0 || r.Intn(5) == 0 {
		return leaves[r.Intn(len(leaves))]
	}
	if r.Intn(3) == 0 {
		return fragUnary[r.Intn(3)](randomFrag(r, leaves, depth-1))
	}
	return qt.BinaryOps[r.Intn(2)](randomFrag(r, leaves, depth-1), randomFrag(r, leaves, depth-1))
}

// ---------------------------------------------------------------------------------------------

type c03Plan struct {
	draws    int
	space    *fragSpace
	stride   int
	nLeaf    int
	nComp    int
	nDeep    int
	nLeafAll int
}

func newC03Plan(tier string) *c03Plan {
	p := &c03Plan{draws: 14, space: newFragSpace(false), stride: 1, nDeep: 8}
	if tier == "thorough" {
		p.draws = 400
		p.space = newFragSpace(true)
		p.stride = 3
		p.nDeep = 600
	}
	p.nLeaf = 16
	p.nComp = nBatches(p.space.Size()) / p.stride
	return p
}

func (c03) Batches(tier string, seed int64) int {
	p := newC03Plan(tier)
	return p.nLeaf + p.nComp + p.nDeep
}

func (c03) RunBatch(ctx *core.Ctx, batch int) {
	mon.Install()
	p := newC03Plan(ctx.Tier)
	switch {
	case batch < p.nLeaf:
		// the class space is enumerated deterministically and completely in every tier; the
		// value draws inside a class depend on the seed
		cases := leafClasses(rand.New(rand.NewSource(ctx.Seed*7919+17)), p.draws)
		for i, lc := range cases {
			if i%p.nLeaf != batch {
				continue
			}
			lc := lc
			text := qt.Print(lc.node, qt.Style{})
			ctx.Case(text, func() { c03Leaf(ctx, lc, text, true) })
		}
	case batch < p.nLeaf+p.nComp:
		lo, hi := batchRange(p.space.Size(), (batch-p.nLeaf)*p.stride)
		for i := lo; i < hi; i++ {
			t := p.space.At(i)
			if t.IsLeaf() {
				continue
			}
			text := qt.Print(t, qt.Style{})
			ctx.Case(text, func() { c03Compound(ctx, t, text, "") })
		}
	default:
		if batch == p.nLeaf+p.nComp {
			for _, t := range qt.RelationTrees() {
				t := t
				ff := false
				t.Walk(func(x *qt.Node) {
					if x.Kind == qt.KFuzzy || x.Kind == qt.KBoost || x.Kind == qt.KGroup {
						ff = true
					}
				})
				if ff {
					continue
				}
				text := qt.Print(t, qt.Style{})
				if t.Kind == qt.KRange || t.Kind == qt.KCmp {
					continue // single ranges and comparisons are the business of the leaf classes
				}
				if t.IsLeaf() {
					ctx.Case(text, func() { c03Leaf(ctx, leafCase{"relation", t, ""}, text, true) })
				} else {
					ctx.Case(text, func() { c03Compound(ctx, t, text, "") })
				}
				ctx.Count("relation_trees", 1)
			}
			// field names that differ only in letter case are different columns (identifiers are
			// quoted, hence case-sensitive): within one query, and from one call to the next
			for _, t := range []*qt.Node{
				qt.Or(qt.F("status", qt.Int(1)), qt.F("Status", qt.Int(2))),
				qt.And(qt.F("s", qt.Word("x")), qt.Not(qt.F("S", qt.Word("x")))),
				qt.Or(qt.Range("Nn", qt.Int(1), qt.Int(5), true), qt.Cmp("nN", ">", qt.Int(7))),
				qt.And(qt.List("tag", qt.Word("a"), qt.Word("b")), qt.F("TAG", qt.Wild("a*"))),
				qt.Or(qt.F("Status", qt.Int(1)), qt.F("status", qt.Int(2))),
				qt.F("STATUS", qt.Int(3)), qt.F("status", qt.Int(3)), qt.F("sTATUS", qt.Word("x")),
			} {
				t := t
				text := qt.Print(t, qt.Style{})
				if t.IsLeaf() {
					ctx.Case(text, func() { c03Leaf(ctx, leafCase{"relation", t, ""}, text, true) })
				} else {
					ctx.Case(text, func() { c03Compound(ctx, t, text, "") })
				}
				ctx.Count("case_pair_trees", 1)
			}
		}
		r := ctx.Rand("deep")
		leaves := fragLeaves(true)
		for i := 0; i < 400; i++ {
			t := randomFrag(r, leaves, 2+r.Intn(4))
			if t.IsLeaf() || t.Size() > 40 {
				continue
			}
			st := qt.Style{}
			if r.Intn(3) == 0 {
				// juxtaposed ANDs are part of the query language too
				t = t.Clone()
				for _, a := range qt.AndNodes(t) {
					if qt.JuxEligible(a, st) && r.Intn(2) == 0 {
						a.Implicit = true
					}
				}
			}
			df := ""
			if r.Intn(3) == 0 {
				// a default field: the equality and pattern leaves on s are written as bare terms
				df = "s"
				t = t.Clone()
				var bare func(n *qt.Node) *qt.Node
				bare = func(n *qt.Node) *qt.Node {
					if n.Kind == qt.KField && n.Field.S == "s" && r.Intn(2) == 0 {
						return qt.T(n.Val)
					}
					for i, k := range n.Kids {
						n.Kids[i] = bare(k)
					}
					return n
				}
				t = bare(t)
			}
			text := qt.Print(t, st)
			ctx.Case(text, func() { c03Compound(ctx, t, text, df) })
		}
	}
}

// sigClass is the class name used in signatures: for ranges the string value kinds are folded
// into "str" (the quoting of each kind is C08's and C02's business; the range form does not
// depend on it), everything else keeps its fine-grained class.
func sigClass(class string) string {
	if !strings.HasPrefix(class, "range:") {
		return class
	}
	parts := strings.Split(class, ":")
	kinds := strings.Split(parts[len(parts)-1], "-")
	for i, k := range kinds {
		switch k {
		case "word", "phrase", "comma", "quote", "empty", "meta", "escaped":
			kinds[i] = "str"
		}
	}
	if len(kinds) == 2 && kinds[0] == "str" && kinds[1] == "str" {
		kinds = kinds[:1]
	}
	parts[len(parts)-1] = strings.Join(kinds, "-")
	return strings.Join(parts, ":")
}

// sqlForm names the observed SQL form of a leaf for signatures.
func sqlForm(ir *oracle.IR) string {
	s := irSkeleton(ir)
	if len(s) > 60 {
		s = s[:60]
	}
	return s
}

// c03Leaf checks one leaf alone. report=false only computes whether the leaf is clean.
func c03Leaf(ctx *core.Ctx, lc leafCase, text string, report bool) (clean bool, ir *oracle.IR) {
	vio := func(sig, format string, args ...any) {
		if report {
			ctx.Violate(sig, format, args...)
		}
	}
	var sql string
	var err error
	if !ctx.Call("ToPostgres", func() {
		if lc.df != "" {
			sql, err = lucene.ToPostgres(text, lucene.WithDefaultField(lc.df))
		} else {
			sql, err = lucene.ToPostgres(text)
		}
	}) {
		return false, nil
	}
	meaning := scopeBare(lc.node, lc.df)
	if report {
		ctx.Count("leaves", 1)
		ctx.Distinct("leaf_classes", lc.class)
	}
	if err != nil {
		vio("c03:leaf:"+sigClass(lc.class)+":render-error", "leaf %q of the filterable fragment does not render: %v", text, err)
		return false, nil
	}
	res := oracle.PgRead(sql)
	if res.Skipped != "" {
		return false, nil
	}
	if res.Reject != "" {
		vio("c03:leaf:"+sigClass(lc.class)+":not-sql", "leaf %q renders %q: %s", text, sql, res.Reject)
		return false, nil
	}
	fields := oracle.CollectFields(meaning)
	rows := oracle.ProbeRows(fields, ctx.Rand("rows"+text), 512)
	sat, unsat := 0, 0
	for i, row := range rows {
		want, lerr := oracle.LucEval(meaning, row)
		if lerr != nil {
			if report {
				ctx.Count("rows_untyped_skipped", 1)
			}
			continue
		}
		got, serr := oracle.SqlEval(res.IR, row, oracle.RowOpaque(i))
		if report {
			ctx.Count("probe_rows", 1)
		}
		if serr != nil {
			vio("c03:leaf:"+sigClass(lc.class)+":"+sqlForm(res.IR)+":untyped", "leaf %q renders %q which compares a %v column with a constant of the other type (%v)", text, sql, row, serr)
			return false, res.IR
		}
		if got != want {
			vio("c03:leaf:"+sigClass(lc.class)+":"+sqlForm(res.IR), "leaf %q renders %q; on the row %v the query is %v but the SQL is %v", text, sql, row, want, got)
			return false, res.IR
		}
		if want {
			sat++
		} else {
			unsat++
		}
	}
	if report {
		if sat > 0 && unsat > 0 {
			ctx.Distinct("nontrivial", "leaf:"+lc.class+":"+text)
		}
		if ctx.Index()%37 == 0 {
			ctx.Sample("leaf", text+"   =>   "+sql)
		}
	}
	return true, res.IR
}

type leafInfo struct {
	clean bool
	ir    *oracle.IR
}

var c03LeafCache = map[string]leafInfo{}

func c03LeafInfo(ctx *core.Ctx, n *qt.Node, df string) leafInfo {
	text := qt.Print(n, qt.Style{})
	key := df + "\x00" + text
	if li, ok := c03LeafCache[key]; ok {
		return li
	}
	clean, ir := c03Leaf(ctx, leafCase{"compound-leaf", n, df}, text, false)
	li := leafInfo{clean, ir}
	if len(c03LeafCache) > 5000 {
		c03LeafCache = map[string]leafInfo{}
	}
	c03LeafCache[key] = li
	return li
}

// expectedIR builds the Boolean combination of the leaves' own SQL that the query's structure demands.
func expectedIR(ctx *core.Ctx, n *qt.Node, allClean *bool, df string) *oracle.IR {
	if n.IsLeaf() {
		li := c03LeafInfo(ctx, n, df)
		if !li.clean {
			*allClean = false
		}
		return li.ir
	}
	kids := []*oracle.IR{}
	for _, k := range n.Kids {
		x := expectedIR(ctx, k, allClean, df)
		if x == nil {
			return nil
		}
		kids = append(kids, x)
	}
	switch n.Kind {
	case qt.KAnd:
		return &oracle.IR{Kind: oracle.IAnd, Args: kids}
	case qt.KOr:
		return &oracle.IR{Kind: oracle.IOr, Args: kids}
	case qt.KNot, qt.KMustNot:
		return &oracle.IR{Kind: oracle.INot, Args: kids}
	case qt.KMust:
		return kids[0]
	}
	return nil
}

// atomsOf lists the distinct atoms (comparison / pattern nodes) of a formula.
func atomsOf(x *oracle.IR, seen map[string]int, order *[]string) {
	switch x.Kind {
	case oracle.IAnd, oracle.IOr, oracle.INot:
		for _, a := range x.Args {
			atomsOf(a, seen, order)
		}
	default:
		k := x.String()
		if _, ok := seen[k]; !ok {
			seen[k] = len(*order)
			*order = append(*order, k)
		}
	}
}

func evalProp(x *oracle.IR, idx map[string]int, assign uint64) bool {
	switch x.Kind {
	case oracle.IAnd:
		for _, a := range x.Args {
			if !evalProp(a, idx, assign) {
				return false
			}
		}
		return true
	case oracle.IOr:
		for _, a := range x.Args {
			if evalProp(a, idx, assign) {
				return true
			}
		}
		return false
	case oracle.INot:
		return !evalProp(x.Args[0], idx, assign)
	}
	return assign&(1<<uint(idx[x.String()])) != 0
}

// propEquivalent decides propositional equivalence over the atoms: a full truth table up to 16
// atoms, 2^16 seeded assignments beyond.
func propEquivalent(a, b *oracle.IR, r *rand.Rand) (bool, uint64, []string) {
	idx := map[string]int{}
	order := []string{}
	atomsOf(a, idx, &order)
	atomsOf(b, idx, &order)
	n := len(order)
	if n <= 16 {
		for as := uint64(0); as < 1<<uint(n); as++ {
			if evalProp(a, idx, as) != evalProp(b, idx, as) {
				return false, as, order
			}
		}
		return true, 0, order
	}
	if n > 63 {
		return true, 0, order // cannot index; counted by the caller through len(order)
	}
	for k := 0; k < 1<<16; k++ {
		as := r.Uint64() & (1<<uint(n) - 1)
		if evalProp(a, idx, as) != evalProp(b, idx, as) {
			return false, as, order
		}
	}
	return true, 0, order
}

func c03Compound(ctx *core.Ctx, t *qt.Node, text string, df string) {
	var sql string
	var err error
	if !ctx.Call("ToPostgres", func() {
		if df != "" {
			sql, err = lucene.ToPostgres(text, lucene.WithDefaultField(df))
		} else {
			sql, err = lucene.ToPostgres(text)
		}
	}) {
		return
	}
	if df != "" {
		ctx.Count("compounds_with_default_field", 1)
	}
	ctx.Count("compounds", 1)
	ctx.Count(fmt.Sprintf("compounds_depth_%d", minInt(t.Depth(), 6)), 1)
	allClean := true
	want := expectedIR(ctx, t, &allClean, df)
	if err != nil {
		if want == nil {
			ctx.Count("compounds_with_unrenderable_leaf", 1)
			return
		}
		ctx.Violate("c03:compound:render-error", "every leaf of %q renders alone but the compound fails: %v", text, err)
		return
	}
	res := oracle.PgRead(sql)
	if res.Skipped != "" {
		ctx.Count("pg_skipped", 1)
		return
	}
	if res.Reject != "" {
		ctx.Violate("c03:compound:not-sql", "compound %q renders %q: %s", text, sql, res.Reject)
		return
	}
	if want == nil {
		ctx.Count("compounds_with_unrenderable_leaf", 1)
		return
	}
	eq, as, atoms := propEquivalent(res.IR, want, ctx.Rand("assign"+text))
	ctx.Count(fmt.Sprintf("truth_table_atoms_%02d", minInt(len(atoms), 20)), 1)
	if !eq {
		desc := []string{}
		for i, a := range atoms {
			desc = append(desc, fmt.Sprintf("%s=%v", a, as&(1<<uint(i)) != 0))
		}
		ctx.Violate("c03:composition:"+t.Skeleton(), "compound %q renders %q, which is not the Boolean combination of its leaves' SQL that the query's structure demands\n  read by PostgreSQL as %s\n  expected            %s\n  differing assignment: %s", text, sql, res.IR, want, strings.Join(desc, ", "))
		return
	}
	ctx.Count("compositions_confirmed", 1)
	// end-to-end on rows when every leaf is clean
	if !allClean {
		ctx.Count("compounds_with_known_bad_leaf", 1)
		return
	}
	meaning := scopeBare(t, df)
	fields := oracle.CollectFields(meaning)
	rows := oracle.ProbeRows(fields, ctx.Rand("rows"+text), 256)
	sat, unsat := 0, 0
	for i, row := range rows {
		w, lerr := oracle.LucEval(meaning, row)
		if lerr != nil {
			continue
		}
		g, serr := oracle.SqlEval(res.IR, row, oracle.RowOpaque(i))
		ctx.Count("probe_rows", 1)
		if serr != nil || g != w {
			ctx.Violate("c03:end-to-end:"+t.Skeleton(), "compound %q renders %q; on the row %v the query is %v but the SQL is %v (%v)", text, sql, row, w, g, serr)
			return
		}
		if w {
			sat++
		} else {
			unsat++
		}
	}
	if sat > 0 && unsat > 0 {
		ctx.Distinct("nontrivial", "compound:"+t.Skeleton()+text)
	}
	if ctx.Index()%499 == 0 {
		ctx.Sample("compound", text+"   =>   "+sql)
	}
}

func (c03) Finish(res *core.Result, cov map[string]any) []string {
	reasons := []string{}
	cov["distinct_nontrivial"] = res.NDistinct("nontrivial")
	cov["exhaustive"] = true
	cov["leaf_classes_covered"] = res.NDistinct("leaf_classes")
	cov["assumptions"] = []string{"two-valued model on non-NULL rows; numbers compare exactly as rationals (a float64 is its shortest round-trip decimal); strings compare bytewise on both sides; SIMILAR TO is translated to an anchored regular expression", "the WHERE expression is read with libpg_query (PostgreSQL 15 grammar), so PostgreSQL's operator precedence is the real one"}
	cov["rule"] = "layer 1: every leaf class (operator x value kind x bracket x open side x formatting/escaping hazard; enumerated exhaustively and deterministically) with seeded value draws, rendered alone and compared with the query's meaning on probe rows around its constants. Layer 2: every depth<=2 compound over the fragment leaves (exhaustive in quick; 1:3 sample of the larger alphabet in thorough) and random deeper compounds: the formula PostgreSQL reads must be propositionally equivalent (full truth table up to 16 atoms) to the query's structure over the leaves' own SQL. Layer 3: compounds whose leaves are all clean are evaluated end to end on probe rows. Non-trivial = distinct leaf or compound whose probe rows contain both a satisfying and a falsifying row."
	floor(res.NDistinct("leaf_classes") >= 120, &reasons, "leaf classes covered %d", res.NDistinct("leaf_classes"))
	floor(res.Counters["compositions_confirmed"] >= 1000, &reasons, "compositions confirmed %d", res.Counters["compositions_confirmed"])
	floor(res.Counters["probe_rows"] >= 100000, &reasons, "probe rows %d", res.Counters["probe_rows"])
	return reasons
}
