package props

import (
	"encoding/json"
	"fmt"
	"math"
	"runtime"
	"strings"

	lucene "github.com/grindlemire/go-lucene"
	"github.com/grindlemire/go-lucene/pkg/lucene/expr"
	"github.com/grindlemire/go-lucene/verif/core"
	"github.com/grindlemire/go-lucene/verif/gen"
	"github.com/grindlemire/go-lucene/verif/mon"
	"github.com/grindlemire/go-lucene/verif/oracle"
	"github.com/grindlemire/go-lucene/verif/qt"
)

// C01: parsing and rendering are total: no panic, no hang, no garbled output.
type c01 struct{}

func init() {
	core.Register(c01{})
	core.PanicClassifier = func(what string, r any) (string, string, bool) {
		if t, ok := isBudgetPanic(r); ok {
			return "c01:step-budget:" + what, fmt.Sprintf("%s exhausted its step budget after %d ticks", what, t), true
		}
		return "", "", false
	}
}

func (c01) ID() string { return "C01" }

type c01Plan struct {
	*seqPlan
	nHostile int
	nScale   int
}

func newC01Plan(tier string) *c01Plan {
	p := &c01Plan{seqPlan: newSeqPlan(tier, 24, 1200)}
	p.nHostile = 2
	p.nScale = len(gen.Families)
	return p
}

func (c01) Batches(tier string, seed int64) int {
	p := newC01Plan(tier)
	return p.total() + p.nHostile + p.nScale
}

func stepBudget(n int) uint64 {
	x := uint64(n + 16)
	return 1000 * x * x
}

func (c01) RunBatch(ctx *core.Ctx, batch int) {
	mon.Install()
	defer monFlush(ctx)
	p := newC01Plan(ctx.Tier)
	switch {
	case batch < p.total():
		p.each(ctx, batch, func(kind, in string) {
			ctx.Case(in, func() { c01Check(ctx, kind, in, false) })
		})
	case batch < p.total()+p.nHostile:
		// printed trees carrying hostile values and field names
		r := ctx.Rand("hostile")
		which := batch - p.total()
		for i, h := range gen.HostileStrings {
			if i%p.nHostile != which {
				continue
			}
			ins := []string{h, "a:" + h, h + ":b", "a:[" + h + " TO " + h + "]", "a:(" + h + " OR " + h + ")", "a:>" + h, h + "~", h + "^2", "+" + h, "-" + h, "NOT " + h}
			if !strings.Contains(h, `"`) {
				q := qt.Phrase(h)
				ins = append(ins, q.Text, "a:"+q.Text, q.Text+":b", "a:["+q.Text+" TO *]", "a:{* TO "+q.Text+"}", "a:("+q.Text+" OR b)", "a:<="+q.Text, q.Text+"~3", "x "+q.Text+" y")
			}
			e := qt.Escaped(h)
			if e.Text != "" {
				ins = append(ins, e.Text, "a:"+e.Text, e.Text+":b", "a:["+e.Text+" TO b]")
			}
			for _, in := range ins {
				in := in
				ctx.Case(in, func() { c01Check(ctx, "hostile", in, false) })
			}
			_ = r
		}
	default:
		c01Scale(ctx, gen.Families[batch-p.total()-p.nHostile])
	}
}

// c01Result carries the measurements of one case.
type c01Result struct {
	ticks    uint64
	accepted bool
	violated bool
}

func c01Check(ctx *core.Ctx, kind, in string, big bool) (res c01Result) {
	vio0 := len(ctx.Res.Violations) + len(ctx.ReplayVio)
	var vioCount0 int64
	for _, n := range ctx.Res.VioCount {
		vioCount0 += n
	}
	defer func() {
		var n1 int64
		for _, n := range ctx.Res.VioCount {
			n1 += n
		}
		res.violated = n1 != vioCount0 || len(ctx.Res.Violations)+len(ctx.ReplayVio) != vio0
	}()
	ntok := 0
	lexOK := ctx.Call("Lexer", func() { ntok, _ = mon.CountTokens(in) })
	// a marker in the output can only be blamed on the input if the input itself can spell "%!"
	hasPct := strings.Contains(in, "%") && strings.Contains(in, "!")
	// "any default-field option": a name the query does not use, or (every other case) a name
	// the query itself uses as a field
	df2 := "df"
	more := []string{}
	if ctx.Index()%2 == 1 || strings.HasSuffix(kind, "-tree") || kind == "fragments" {
		ctx.Call("Lexer", func() {
			toks, _ := oracle.Lex(in)
			cands := []string{}
			for i := 0; i+1 < len(toks) && len(cands) < 4; i++ {
				if oracle.IsTermTok(toks[i]) && toks[i+1].Val == ":" {
					if s, isStr := oracle.TypedValue(toks[i]).Val.(string); isStr && s != "" {
						cands = append(cands, s)
					}
				}
			}
			if len(cands) > 0 && (strings.HasSuffix(kind, "-tree") || kind == "fragments") {
				more = cands // small structured inputs: every field of the query in turn
				ctx.Count("default_field_is_a_field_of_the_query", int64(len(cands)))
			} else if len(cands) > 0 {
				df2 = cands[int(ctx.Index()/2)%len(cands)]
				ctx.Count("default_field_is_a_field_of_the_query", 1)
			}
		})
	}
	for _, df := range append([]string{"", df2}, more...) {
		budget := stepBudget(len(in))
		tickStart(budget)
		mon.BeginParse()
		e, err, ok := parse(ctx, in, df)
		if !ok {
			// a panic or an exhausted step budget: reported; nothing more to learn from this case
			res.ticks += tickStop()
			continue
		}
		if ok {
			ctx.Count("calls_Parse", 1)
			limit := int64(4*ntok + 4)
			if lexOK && mon.Iters > limit {
				ctx.Violate("c01:iterations", "Parse(%q): %d loop iterations for %d tokens (bound %d)", in, mon.Iters, ntok, limit)
			}
			if ntok > 0 {
				ctx.Max("max_iterations_per_token", float64(mon.Iters)/float64(ntok))
			}
			if mon.BadReduce != "" {
				ctx.Violate("c01:reduce-no-progress", "Parse(%q): %s", in, mon.BadReduce)
			}
		}
		ctx.Call("ToPostgres", func() {
			if df != "" {
				lucene.ToPostgres(in, lucene.WithDefaultField(df))
			} else {
				lucene.ToPostgres(in)
			}
			ctx.Count("calls_ToPostgres", 1)
		})
		ctx.Call("ToParameterizedPostgres", func() {
			if df != "" {
				lucene.ToParameterizedPostgres(in, lucene.WithDefaultField(df))
			} else {
				lucene.ToParameterizedPostgres(in)
			}
			ctx.Count("calls_ToParameterizedPostgres", 1)
		})
		if ok && err == nil && e != nil {
			res.accepted = true
			ctx.Count("accepted", 1)
			c01Print(ctx, in, e, hasPct)
			if !big {
				ctx.Distinct("accepted_inputs", in)
			}
		} else if ok {
			ctx.Count("rejected", 1)
		}
		t := tickStop()
		res.ticks += t
		if tickEnabled && !big {
			ctx.Max("max_ticks_over_budget", float64(t)/float64(budget))
			if len(in) > 0 {
				ctx.Max("max_ticks_per_byte", float64(t)/float64(len(in)))
			}
		}
	}
	if !big && ctx.Index()%4001 == 0 {
		ctx.Sample(kind, in)
	}
	return res
}

func c01Print(ctx *core.Ctx, in string, e *expr.Expression, hasPct bool) {
	var s, g string
	var j []byte
	if ctx.Call("String", func() { s = e.String() }) {
		ctx.Count("calls_String", 1)
		if !hasPct && strings.Contains(s, "%!") {
			ctx.Violate("c01:marker:String", "String() of Parse(%q) contains a formatting error marker: %q", in, s)
		}
	}
	if ctx.Call("GoString", func() { g = fmt.Sprintf("%#v", e) }) {
		ctx.Count("calls_GoString", 1)
		if !hasPct && strings.Contains(g, "%!") {
			ctx.Violate("c01:marker:GoString", "%%#v of Parse(%q) contains a formatting error marker: %q", in, g)
		}
	}
	if ctx.Call("MarshalJSON", func() { j, _ = json.Marshal(e) }) {
		ctx.Count("calls_Marshal", 1)
		if !hasPct && strings.Contains(string(j), "%!") {
			ctx.Violate("c01:marker:JSON", "JSON of Parse(%q) contains a formatting error marker: %q", in, j)
		}
	}
}

// c01Scale measures logical steps and allocation over growing sizes of one family.
func c01Scale(ctx *core.Ctx, fam gen.Family) {
	sizes := []int{64, 128, 256, 512, 1024, 2048}
	if ctx.Thorough() {
		sizes = append(sizes, 4096, 8192)
	}
	type pt struct {
		n     int
		bytes int
		ticks float64
		alloc float64
	}
	pts := []pt{}
	for _, n := range sizes {
		in := fam.Make(n)
		if len(in) > 48<<10 && len(pts) >= 4 {
			// the renderers copy their left operand at every level (quadratic bytes): beyond
			// 48 KiB a single case costs tens of seconds without telling anything new
			ctx.Count("scale_sizes_skipped_over_48KiB", 1)
			break
		}
		var m0, m1 runtime.MemStats
		runtime.ReadMemStats(&m0)
		var r c01Result
		ctx.Case(fmt.Sprintf("family %s n=%d (%d bytes)", fam.Name, n, len(in)), func() {
			r = c01Check(ctx, "scale", in, true)
		})
		runtime.ReadMemStats(&m1)
		pts = append(pts, pt{n, len(in), float64(r.ticks), float64(m1.TotalAlloc - m0.TotalAlloc)})
		ctx.Count("scale_cases", 1)
		if r.accepted {
			ctx.Count("scale_cases_accepted", 1)
		}
		if r.violated {
			// a budget overrun or panic at this size: larger sizes would only repeat it, slowly
			ctx.Res.Notes = append(ctx.Res.Notes, fmt.Sprintf("%s: stopped at n=%d after a violation", fam.Name, n))
			return
		}
		if k := len(pts); k >= 2 && pts[k-2].ticks > 0 && tickEnabled {
			// growth between consecutive doublings: a factor above 12 is an exponent above 3.58
			if g := pts[k-1].ticks / pts[k-2].ticks; g > 12 && n >= 256 {
				ctx.Violate("c01:superpolynomial-steps:"+fam.Name, "family %s: logical steps grow by a factor %.1f when the size doubles from %d to %d (%.0f -> %.0f ticks)", fam.Name, g, pts[k-2].n, n, pts[k-2].ticks, pts[k-1].ticks)
				return
			}
		}
	}
	if len(pts) < 4 {
		return
	}
	slope := func(a, b pt, f func(pt) float64) float64 {
		if f(a) <= 0 || f(b) <= 0 {
			return 0
		}
		return math.Log(f(b)/f(a)) / math.Log(float64(b.n)/float64(a.n))
	}
	base := pts[2] // n = 256
	top := pts[len(pts)-1]
	st := slope(base, top, func(p pt) float64 { return p.ticks })
	sa := slope(base, top, func(p pt) float64 { return p.alloc })
	ctx.Max("max_tick_slope", st)
	ctx.Max("max_alloc_slope", sa)
	ctx.Res.Notes = append(ctx.Res.Notes, fmt.Sprintf("%s: ticks %.0f..%.0f slope %.2f, alloc %.0f..%.0f bytes slope %.2f", fam.Name, base.ticks, top.ticks, st, base.alloc, top.alloc, sa))
	if tickEnabled && st > 3.5 {
		ctx.Violate("c01:superpolynomial-steps:"+fam.Name, "family %s: logical steps grow with exponent %.2f between n=%d and n=%d (%.0f -> %.0f ticks)", fam.Name, st, base.n, top.n, base.ticks, top.ticks)
	}
	if sa > 3.5 {
		ctx.Violate("c01:superpolynomial-alloc:"+fam.Name, "family %s: allocated bytes grow with exponent %.2f between n=%d and n=%d (%.0f -> %.0f)", fam.Name, sa, base.n, top.n, base.alloc, top.alloc)
	}
}

func (c01) Finish(res *core.Result, cov map[string]any) []string {
	reasons := []string{}
	cov["distinct_nontrivial"] = res.NDistinct("accepted_inputs")
	cov["exhaustive"] = true
	cov["step_sanitizer"] = tickEnabled
	cov["scaling_families"] = res.Notes
	cov["rule"] = "token sequences up to length L over three alphabets (exhaustive), depth<=2 trees, hostile values in every leaf position, a seeded feedback-guided byte fuzzer and 38 scaling families up to 2048 (quick) / 8192 (thorough) units; each with and without a default field through Parse, ToPostgres, ToParameterizedPostgres and, when accepted, String, %#v and json.Marshal. Monitors: recover + worker exit status, parser iteration bound 4n+4 and stack-shrinking reduces at the hooks, per-case step budget 1000*(len+16)^2 on the tick-instrumented build, growth exponents of ticks and allocated bytes per family, %! marker scan. Non-trivial = distinct accepted input (all six entry points ran)."
	floor(res.Counters["accepted"] >= 1000, &reasons, "accepted %d < 1000", res.Counters["accepted"])
	floor(res.Counters["calls_Marshal"] >= 1000, &reasons, "Marshal calls %d", res.Counters["calls_Marshal"])
	floor(res.Counters["scale_cases_accepted"] >= 100, &reasons, "accepted scaling cases %d", res.Counters["scale_cases_accepted"])
	floor(tickEnabled, &reasons, "step sanitizer overlay not compiled in")
	reducersAllFired(res, &reasons)
	return reasons
}
