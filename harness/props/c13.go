package props

import (
	"encoding/json"
	"fmt"
	"strings"

	"github.com/grindlemire/go-lucene/pkg/driver"
	"github.com/grindlemire/go-lucene/pkg/lucene/expr"
	"github.com/grindlemire/go-lucene/verif/core"
	"github.com/grindlemire/go-lucene/verif/gen"
	"github.com/grindlemire/go-lucene/verif/mon"
	"github.com/grindlemire/go-lucene/verif/qt"
)

// C13: decoding untrusted JSON is safe, and validation guards rendering.
type c13 struct{}

func init() { core.Register(c13{}) }

func (c13) ID() string { return "C13" }

func c13Counts(tier string) (nEnc, nSchema, nMut, nFixed int) {
	if tier == "thorough" {
		return 200, 600, 600, 1
	}
	return 8, 24, 24, 1
}

func (c13) Batches(tier string, seed int64) int {
	a, b, c, d := c13Counts(tier)
	return a + b + c + d
}

var c13Fixed = []string{
	``, ` `, `null`, `""`, `"a"`, `5`, `-`, `{`, `}`, `{}`, `[]`, `[1,2]`, `{"left":null}`, `{"left":null,"operator":"NOT"}`, `{"operator":"AND"}`,
	`{"left":"a","operator":"LIKE","right":"*"}`, `{"left":"a","operator":"LIKE","right":""}`, `{"left":"a","operator":"LIKE","right":5}`, `{"left":"a","operator":"LIKE"}`,
	`{"left":"a","operator":"RANGE","right":{"min":"","max":"","inclusive":true}}`, `{"left":"a","operator":"RANGE","right":{"min":null,"max":null}}`,
	`{"left":"a","operator":"RANGE","right":{"min":1}}`, `{"left":"a","operator":"RANGE","right":{"min":{"x":1},"max":[1]}}`, `{"left":"a","operator":"RANGE","right":5}`,
	`{"left":"a","operator":"RANGE","right":"x"}`, `{"left":"a","operator":"RANGE"}`, `{"left":"a","operator":"RANGE","right":{"min":"x,y","max":"z"}}`,
	`{"left":"a","operator":"RANGE","right":{"min":"*","max":"*","inclusive":false}}`, `{"left":"","operator":"RANGE","right":{"min":1,"max":2}}`,
	`{"left":"a","operator":"IN","right":{"left":[],"operator":"LIST"}}`, `{"left":"a","operator":"IN","right":{"left":["x"],"operator":"LIST"}}`,
	`{"left":"a","operator":"IN","right":{"left":5,"operator":"LIST"}}`, `{"left":"a","operator":"IN","right":5}`, `{"left":[1,2],"operator":"LIST"}`, `{"left":[[1],{"a":1}],"operator":"LIST"}`,
	`{"left":"a","operator":"LIST"}`, `{"left":["a","b"],"operator":"AND","right":1}`, `{"left":["a","b"],"operator":"EQUALS","right":1}`, `{"left":["a"],"operator":"RANGE","right":{"min":1,"max":2}}`,
	`{"left":"a","operator":"FUZZY","distance":1e99}`, `{"left":"a","operator":"FUZZY","distance":"x"}`, `{"left":"a","operator":"BOOST","power":-1e308}`, `{"left":"a","operator":"BOOST","power":null}`,
	`{"left":"a","operator":"LITERAL"}`, `{"left":{"left":"a","operator":"LITERAL"},"operator":"LITERAL"}`, `{"left":"a*","operator":"WILD"}`, `{"left":5,"operator":"WILD"}`, `{"left":5,"operator":"REGEXP"}`,
	`{"left":5,"operator":"EQUALS","right":{"left":5,"operator":"WILD"}}`, `{"left":"a","operator":"EQUALS","right":{"left":5,"operator":"REGEXP"}}`,
	`{"left":"a","operator":"","right":"b"}`, `{"left":"a","operator":"NOPE","right":"b"}`, `{"left":"a","operator":5}`, `{"left":"a","operator":null}`,
	`{"left":true,"operator":"EQUALS","right":false}`, `{"left":"a","operator":"EQUALS","right":true}`, `{"left":"a","operator":"GREATER","right":null}`,
	`{"left":"a","operator":"EQUALS","right":{"min":1,"max":2}}`, `{"left":"a","operator":"AND","right":{"min":1,"max":2,"left":3}}`,
	`{"left":"a","operator":"NOT","right":"b"}`, `{"left":"a","operator":"MUST","right":{"min":1,"max":2}}`, `{"left":"\"min\":\"max\":","operator":"NOT"}`,
	`{"left":"a","operator":"EQUALS","right":"\"min\": \"max\":"}`, `{"left":"a","operator":"RANGE","right":{"min":"\"left\":","max":1}}`,
	`{"left":"a","operator":"RANGE","boundaries":{"min":1,"max":2,"inclusive":true}}`, `{"left":"a","operator":"RANGE","right":{"min":1,"max":2},"boundaries":null}`,
	`{"left":"a","operator":"RANGE","right":{"MIN":1,"Max":2}}`, `{"Left":"a","OPERATOR":"NOT"}`, `{"left":"a","operator":"NOT","left":"b"}`,
	`{"left":"a","operator":"EQUALS","right":1e999}`, `{"left":1e999,"operator":"NOT"}`, `{"left":"a","operator":"EQUALS","right":-0}`, `{"left":"a","operator":"EQUALS","right":0.0}`,
	`"\ud800"`, `"\u0000"`, "\"a\x00b\"", "\"\xff\"", `{"left":"` + strings.Repeat("z", 70) + `","operator":"EQUALS","right":1}`, `{"left":"f\"q","operator":"EQUALS","right":1}`,
	`{"left":"a","operator":"EQUALS","right":"\u0000"}`, `{"left":"a","operator":"LIKE","right":"/"}`, `{"left":"a","operator":"LIKE","right":"//"}`, `{"left":"a","operator":"LIKE","right":"/*/"}`,
}

var c13Driver = driver.NewPostgresDriver()

func (c13) RunBatch(ctx *core.Ctx, batch int) {
	mon.Install()
	nEnc, nSchema, nMut, _ := c13Counts(ctx.Tier)
	switch {
	case batch < nEnc:
		// (a) encodings of accepted queries
		r := ctx.Rand("enc")
		leaves := qt.FullLeaves()
		ins := append([]string{}, gen.RepoSeeds...)
		for i := 0; i < 1500; i++ {
			ins = append(ins, qt.Print(qt.RandomTree(r, leaves, 1+r.Intn(4)), qt.Style{}))
		}
		for _, in := range ins {
			for _, df := range []string{"", "df"} {
				e, err, ok := parse(ctx, in, df)
				if !ok || err != nil {
					continue
				}
				b, merr := json.Marshal(e)
				if merr != nil {
					continue
				}
				doc := string(b)
				ctx.Case(doc, func() { c13Check(ctx, "encoding", doc) })
			}
		}
	case batch < nEnc+nSchema:
		g := &gen.JSONGen{R: ctx.Rand("schema")}
		for i := 0; i < 4000; i++ {
			doc := g.Doc(1 + g.R.Intn(4))
			ctx.Case(doc, func() { c13Check(ctx, "schema", doc) })
		}
	case batch < nEnc+nSchema+nMut:
		r := ctx.Rand("mut")
		g := &gen.JSONGen{R: r}
		seeds := append([]string{}, c13Fixed...)
		for i := 0; i < 60; i++ {
			seeds = append(seeds, g.Doc(3))
		}
		leaves := qt.FullLeaves()
		for i := 0; i < 60; i++ {
			in := qt.Print(qt.RandomTree(r, leaves, 3), qt.Style{})
			if e, err, ok := parse(ctx, in, ""); ok && err == nil {
				if b, merr := json.Marshal(e); merr == nil {
					seeds = append(seeds, string(b))
				}
			}
		}
		f := gen.NewFuzzer(r, seeds, gen.JSONDict)
		f.MaxLen = 600
		f.Run(4000, func(doc string) {
			ctx.Case(doc, func() { c13Check(ctx, "mutated", doc) })
		})
	default:
		// every hostile string as a field name and as a value under each column operator
		for _, h := range gen.ValueDict(ctx.Rand("values"), 200) {
			hb, _ := json.Marshal(h)
			for _, op := range []string{"EQUALS", "GREATER", "LESS_EQ", "LIKE", "IN", "RANGE"} {
				right := `"v"`
				switch op {
				case "LIKE":
					right = `"v*"`
				case "IN":
					right = `{"left":["x","y"],"operator":"LIST"}`
				case "RANGE":
					right = `{"min":1,"max":2,"inclusive":true}`
				}
				doc := `{"left":` + string(hb) + `,"operator":"` + op + `","right":` + right + `}`
				ctx.Case(doc, func() { c13Check(ctx, "hostile-field", doc) })
				if right == `"v"` {
					// the same name over a number, a float, a pattern and a nested clause
					for _, r2 := range []string{`5`, `2.5`, `"w*"`, `"/r/"`, `{"left":"x","operator":"EQUALS","right":1}`} {
						doc2 := `{"left":` + string(hb) + `,"operator":"` + op + `","right":` + r2 + `}`
						ctx.Case(doc2, func() { c13Check(ctx, "hostile-field", doc2) })
						doc3 := `{"left":{"left":"k","operator":"EQUALS","right":"v"},"operator":"AND","right":{"left":{"left":` + string(hb) + `,"operator":"` + op + `","right":` + r2 + `},"operator":"NOT"}}`
						ctx.Case(doc3, func() { c13Check(ctx, "hostile-field", doc3) })
					}
				}
			}
			for _, doc := range []string{
				`{"left":"a","operator":"EQUALS","right":` + string(hb) + `}`,
				`{"left":"a","operator":"LIKE","right":` + string(hb) + `}`,
				`{"left":"a","operator":"RANGE","right":{"min":` + string(hb) + `,"max":` + string(hb) + `,"inclusive":false}}`,
				`{"left":"a","operator":"IN","right":{"left":[` + string(hb) + `,1],"operator":"LIST"}}`,
				`{"left":{"left":` + string(hb) + `,"operator":"NOT"},"operator":"BOOST","power":2}`,
				string(hb),
			} {
				doc := doc
				ctx.Case(doc, func() { c13Check(ctx, "hostile-value", doc) })
			}
		}
		for _, doc := range c13Fixed {
			doc := doc
			ctx.Case(doc, func() { c13Check(ctx, "fixed", doc) })
		}
		// structurally odd nodes as members of an array operand, under every operator and in the
		// three places an array can stand (validation does not look into arrays everywhere, the
		// renderers do)
		members := []string{`{"left":"a","operator":"RANGE"}`, `{"left":"a","operator":"RANGE","right":5}`, `{"left":"a","operator":"RANGE","right":"x"}`, `{"left":"a","operator":"RANGE","right":{"min":1}}`,
			`{"left":"a","operator":"LIKE"}`, `{"left":"a","operator":"LIKE","right":5}`, `{"left":"a","operator":"IN"}`, `{"left":"a","operator":"IN","right":"x"}`, `{"left":"a","operator":"LIST"}`, `{"left":[],"operator":"LIST"}`,
			`{"left":"a","operator":"EQUALS"}`, `{"left":"a","operator":"GREATER"}`, `{"operator":"NOT"}`, `{"left":"a","operator":"BOOST","power":-1}`, `{"left":"a","operator":"FUZZY","distance":-1}`, `{"left":["x",{"left":"a","operator":"RANGE"}],"operator":"AND","right":"y"}`,
			`{"left":"a","operator":"AND"}`, `{"left":null,"operator":"MUST"}`, `[1,2]`, `{"min":1,"max":2}`, `"plain"`, `7`}
		for _, op := range []string{"AND", "OR", "EQUALS", "LIKE", "NOT", "RANGE", "MUST", "MUST_NOT", "BOOST", "FUZZY", "LITERAL", "WILD", "REGEXP", "GREATER", "LESS", "GREATER_EQ", "LESS_EQ", "IN", "LIST"} {
			for _, mdoc := range members {
				for _, doc := range []string{
					`{"left":[` + mdoc + `],"operator":"` + op + `"}`,
					`{"left":[` + mdoc + `,"x"],"operator":"` + op + `","right":"y"}`,
					`{"left":"a","operator":"` + op + `","right":{"left":[` + mdoc + `,"z"],"operator":"LIST"}}`,
					`{"left":{"left":[` + mdoc + `],"operator":"` + op + `"},"operator":"AND","right":"k"}`,
				} {
					doc := doc
					ctx.Case(doc, func() { c13Check(ctx, "array-member", doc) })
				}
			}
		}
		// deep nesting up to encoding/json's own limit
		depths := []int{10, 100, 1000, 2500}
		if ctx.Thorough() {
			depths = append(depths, 9000, 11000)
		}
		for _, n := range gen.Sizes(depths, 8, 3000) {
			doc := strings.Repeat(`{"left":`, n) + `"a"` + strings.Repeat(`,"operator":"NOT"}`, n)
			ctx.Case(fmt.Sprintf("NOT nesting depth %d", n), func() { c13Check(ctx, "deep", doc) })
			doc2 := strings.Repeat(`{"operator":"AND","right":"b","left":`, n) + `"a"` + strings.Repeat(`}`, n)
			ctx.Case(fmt.Sprintf("AND nesting depth %d", n), func() { c13Check(ctx, "deep", doc2) })
		}
	}
}

func c13Check(ctx *core.Ctx, kind, doc string) {
	var d expr.Expression
	var uerr error
	if !ctx.Call("UnmarshalJSON", func() { uerr = json.Unmarshal([]byte(doc), &d) }) {
		return
	}
	ctx.Count("documents", 1)
	// also through the pointer and through a containing value
	var dp *expr.Expression
	ctx.Call("UnmarshalJSON(ptr)", func() { _ = json.Unmarshal([]byte(doc), &dp) })
	if uerr != nil {
		ctx.Count("decode_error", 1)
		return
	}
	ctx.Count("decode_ok", 1)
	c13Reused(ctx, doc)
	var verr error
	if !ctx.Call("Validate", func() { verr = expr.Validate(&d) }) {
		return
	}
	if verr != nil {
		ctx.Count("validate_rejected", 1)
		return
	}
	ctx.Count("validated", 1)
	ctx.Count("validated_"+kind, 1)
	ctx.Count("validated_op_"+d.Op.String(), 1)
	ctx.Call("String", func() { _ = d.String() })
	ctx.Call("GoString", func() { _ = fmt.Sprintf("%#v", &d); _ = fmt.Sprintf("%#v", d) })
	ctx.Call("MarshalJSON", func() { _, _ = json.Marshal(&d) })
	ctx.Call("Render", func() { _, _ = c13Driver.Render(&d) })
	ctx.Call("RenderParam", func() { _, _, _ = c13Driver.RenderParam(&d) })
	sk := jsonSkeleton([]byte(doc))
	ctx.Distinct("nontrivial", sk)
	if ctx.Index()%501 == 0 {
		ctx.Sample("validated_"+kind, doc)
	}
}

// c13Reused decodes the document into a value that already holds a decoded, validated
// expression (a caller may reuse a decode target): whatever Validate says about the value
// afterwards guards the same calls. A library that remembers an earlier verdict for the value
// shows here. The sequence is complete within the case, so a replay needs no predecessor.
func c13Reused(ctx *core.Ctx, doc string) {
	t := new(expr.Expression)
	if err := json.Unmarshal([]byte(`{"left":"a","operator":"EQUALS","right":"b"}`), t); err != nil || expr.Validate(t) != nil {
		return
	}
	var uerr, verr error
	if !ctx.Call("UnmarshalJSON(reused target)", func() { uerr = json.Unmarshal([]byte(doc), t) }) || uerr != nil {
		return
	}
	ctx.Count("reused_target_decodes", 1)
	if !ctx.Call("Validate(reused target)", func() { verr = expr.Validate(t) }) || verr != nil {
		return
	}
	ctx.Count("reused_target_validated", 1)
	ctx.Call("String(reused target)", func() { _ = t.String() })
	ctx.Call("GoString(reused target)", func() { _ = fmt.Sprintf("%#v", t) })
	ctx.Call("MarshalJSON(reused target)", func() { _, _ = json.Marshal(t) })
	ctx.Call("Render(reused target)", func() { _, _ = c13Driver.Render(t) })
	ctx.Call("RenderParam(reused target)", func() { _, _, _ = c13Driver.RenderParam(t) })
}

func (c13) Finish(res *core.Result, cov map[string]any) []string {
	reasons := []string{}
	cov["distinct_nontrivial"] = res.NDistinct("nontrivial")
	cov["rule"] = "JSON documents from three sources: encodings of accepted queries, a schema-aware generator (real and bogus operator names; members missing, extra, null or wrongly typed; hostile leaves; boundaries in odd places), and seeded byte-level mutations of both plus a fixed list of edge documents and nesting up to encoding/json's depth limit. Unmarshal must not panic; for documents that decode and pass Validate, String, %#v, Marshal, Render and RenderParam must return normally. Non-trivial = distinct skeleton of a validated document."
	docs := res.Counters["documents"]
	floor(docs >= 10000, &reasons, "documents %d", docs)
	floor(res.Counters["validated"]*20 >= docs, &reasons, "only %d of %d documents validated (< 5%%): the second clause would be vacuous", res.Counters["validated"], docs)
	floor(res.Counters["decode_error"] > 100 && res.Counters["validate_rejected"] > 100, &reasons, "decode errors %d, validate rejections %d", res.Counters["decode_error"], res.Counters["validate_rejected"])
	for _, op := range []string{"AND", "OR", "EQUALS", "LIKE", "NOT", "RANGE", "MUST", "MUST_NOT", "BOOST", "FUZZY", "LITERAL", "WILD", "REGEXP", "GREATER", "LESS", "GREATER_EQ", "LESS_EQ", "IN", "LIST"} {
		floor(res.Counters["validated_op_"+op] > 0, &reasons, "no validated document with root operator %s", op)
	}
	return reasons
}
