package props

import (
	"encoding/json"
	"fmt"
	"strings"

	lucene "github.com/grindlemire/go-lucene"
	"github.com/grindlemire/go-lucene/pkg/driver"
	"github.com/grindlemire/go-lucene/pkg/lucene/expr"
	"github.com/grindlemire/go-lucene/verif/core"
	"github.com/grindlemire/go-lucene/verif/gen"
	"github.com/grindlemire/go-lucene/verif/mon"
	"github.com/grindlemire/go-lucene/verif/qt"
)

// C15: custom drivers: Render folds the tree with exactly the supplied functions.
type c15 struct{}

func init() { core.Register(c15{}) }

func (c15) ID() string { return "C15" }

var allOps = []expr.Operator{expr.And, expr.Or, expr.Equals, expr.Like, expr.Not, expr.Range, expr.Must, expr.MustNot, expr.Boost, expr.Fuzzy,
	expr.Literal, expr.Wild, expr.Regexp, expr.Greater, expr.Less, expr.GreaterEq, expr.LessEq, expr.In, expr.List}

func c15Space(tier string) *qt.Space {
	if tier == "thorough" {
		return qt.NewSpace(qt.FullLeaves())
	}
	return qt.NewSpace(qt.QuickLeaves())
}

func (c15) Batches(tier string, seed int64) int {
	n := nBatches(c15Space(tier).Size())
	if tier == "thorough" {
		return n/8 + 64 // the depth-2 space is sampled 1:8 in the thorough tier (each tree costs ~40 renders)
	}
	return n + 8
}

type traceCall struct {
	op          expr.Operator
	left, right string
	tok         string
	alt         bool
}

type tracer struct {
	calls []traceCall
	n     int
	// structural: results are a function of the operator and the arguments only (equal operands
	// give equal texts), instead of a fresh token per call
	structural bool
}

func (t *tracer) fn(op expr.Operator, alt bool) driver.RenderFN {
	return func(left, right string) (string, error) {
		t.n++
		tok := fmt.Sprintf("⟦%d⟧", t.n)
		if alt {
			tok = fmt.Sprintf("⟪%d⟫", t.n)
		}
		if t.structural {
			tok = op.String() + "⟦" + left + "¦" + right + "⟧"
		}
		t.calls = append(t.calls, traceCall{op, left, right, tok, alt})
		return tok, nil
	}
}

func (t *tracer) fullMap() map[expr.Operator]driver.RenderFN {
	m := map[expr.Operator]driver.RenderFN{}
	for _, op := range allOps {
		m[op] = t.fn(op, false)
	}
	return m
}

func normTok(s string) string {
	s = strings.ReplaceAll(s, "⟪", "⟦")
	return strings.ReplaceAll(s, "⟫", "⟧")
}

// exprNodes lists the expression nodes in the order a bottom-up left-to-right fold finishes them.
func exprNodes(x any, out *[]*expr.Expression) {
	switch v := x.(type) {
	case *expr.Expression:
		if v == nil {
			return
		}
		exprNodes(v.Left, out)
		exprNodes(v.Right, out)
		*out = append(*out, v)
	case []*expr.Expression:
		for _, e := range v {
			exprNodes(e, out)
		}
	case *expr.RangeBoundary:
		if v != nil {
			exprNodes(v.Min, out)
			exprNodes(v.Max, out)
		}
	}
}

// c15StockDrivers: customising one driver obtained from NewPostgresDriver (in place, as the
// RenderFNs field invites) must not change any other driver nor the package-level renderers.
func c15StockDrivers(ctx *core.Ctx) {
	queries := []string{"a:b", "a:b~2 AND c:d", "x:y^3", "a:[1 TO 5] OR b:c*"}
	type res struct {
		s   string
		err bool
	}
	snapshot := func() []res {
		out := []res{}
		for _, q := range queries {
			e, perr, ok := parse(ctx, q, "")
			if !ok || perr != nil {
				out = append(out, res{"parse error", true})
				continue
			}
			var s1, s2, s3 string
			var e1, e2, e3 error
			ctx.Call("Render(fresh driver)", func() { s1, e1 = driver.NewPostgresDriver().Render(e) })
			ctx.Call("ToPostgres", func() { s2, e2 = lucene.ToPostgres(q) })
			ctx.Call("ToParameterizedPostgres", func() { s3, _, e3 = lucene.ToParameterizedPostgres(q) })
			out = append(out, res{s1, e1 != nil}, res{s2, e2 != nil}, res{s3, e3 != nil})
		}
		return out
	}
	ctx.Case("customise one stock postgres driver in place", func() {
		before := snapshot()
		d := driver.NewPostgresDriver()
		tr := &tracer{}
		origEq, hadEq := d.RenderFNs[expr.Equals]
		d.RenderFNs[expr.Fuzzy] = tr.fn(expr.Fuzzy, true)
		d.RenderFNs[expr.Boost] = tr.fn(expr.Boost, true)
		d.RenderFNs[expr.Equals] = tr.fn(expr.Equals, true)
		delete(d.RenderFNs, expr.Range)
		if e, perr, ok := parse(ctx, "a:b~2", ""); ok && perr == nil {
			ctx.Call("Render(customised driver)", func() { _, _ = d.Render(e) })
		}
		after := snapshot()
		ctx.Count("stock_driver_comparisons", int64(len(before)))
		for i := range before {
			if before[i] != after[i] {
				ctx.Violate("c15:customising-one-driver-changes-others", "after replacing functions on one driver obtained from NewPostgresDriver, another renderer changed: %q (error=%v) became %q (error=%v)", before[i].s, before[i].err, after[i].s, after[i].err)
				break
			}
		}
		// undo (only matters if the maps are shared, which is the violation)
		delete(d.RenderFNs, expr.Fuzzy)
		delete(d.RenderFNs, expr.Boost)
		if hadEq {
			d.RenderFNs[expr.Equals] = origEq
		}
		if fresh := driver.NewPostgresDriver(); fresh.RenderFNs[expr.Range] == nil {
			if r, ok := driver.Shared[expr.Range]; ok {
				d.RenderFNs[expr.Range] = r
			}
		}
	})
}

// c15SameMapSameTree: "exactly the supplied functions" means the functions the map holds at
// the time of the call. One map object and one tree are used for three renders: as is, after one
// function was replaced in place, after one function was deleted in place.
func c15SameMapSameTree(ctx *core.Ctx) {
	for _, q := range []string{"a:b", "NOT a:b AND c:d", "a:(x OR y) OR NOT n:[1 TO 5]", "f:w* AND NOT (g:/r/ OR h:>=4)", "+a:b -c:d e:f", `NOT (a:"p q" OR NOT b:1)`} {
		e, err, ok := parse(ctx, q, "")
		if !ok || err != nil {
			continue
		}
		nodes := []*expr.Expression{}
		exprNodes(e, &nodes)
		present := map[expr.Operator]int{}
		for _, n := range nodes {
			present[n.Op]++
		}
		ctx.Case("same map, same tree, functions changed in place: "+q, func() {
			tr := &tracer{structural: true}
			m := tr.fullMap()
			b := driver.Base{RenderFNs: m}
			var out1, out2, out3 string
			var e1, e2, e3 error
			if !ctx.Call("Base.Render", func() { out1, e1 = b.Render(e) }) || e1 != nil {
				return
			}
			for _, op := range []expr.Operator{expr.Equals, expr.Not, expr.And, expr.Or, expr.Literal, expr.In, expr.Like, expr.Range, expr.Must} {
				if present[op] == 0 {
					continue
				}
				calls := 0
				old := m[op]
				m[op] = func(l, r string) (string, error) { calls++; return "REPLACED(" + l + "|" + r + ")", nil }
				if !ctx.Call("Base.Render(after in-place replacement)", func() { out2, e2 = b.Render(e) }) {
					return
				}
				ctx.Count("in_place_replacements", 1)
				if e2 != nil || calls != present[op] || out2 == out1 {
					ctx.Violate("c15:in-place-replacement-ignored:"+op.String(), "after replacing the function of %v in the same map, Render(%q) called it %d times for %d nodes and returned %q (before: %q, err %v)", op, q, calls, present[op], out2, out1, e2)
					return
				}
				delete(m, op)
				if !ctx.Call("Base.Render(after in-place removal)", func() { out3, e3 = b.Render(e) }) {
					return
				}
				if e3 == nil || out3 != "" {
					ctx.Violate("c15:in-place-removal-ignored:"+op.String(), "after deleting the function of %v from the same map, Render(%q) returns %q, err %v", op, q, out3, e3)
					return
				}
				m[op] = old
				var out4 string
				var e4 error
				if ctx.Call("Base.Render(after restoring)", func() { out4, e4 = b.Render(e) }) && (e4 != nil || out4 != out1) {
					ctx.Violate("c15:in-place-restore-differs:"+op.String(), "after restoring the function of %v, Render(%q) returns %q (err %v), at first %q", op, q, out4, e4, out1)
					return
				}
			}
		})
	}
}

func (p c15) RunBatch(ctx *core.Ctx, batch int) {
	mon.Install()
	if batch%16 == 0 {
		c15StockDrivers(ctx)
		c15SameMapSameTree(ctx)
	}
	sp := c15Space(ctx.Tier)
	nEnum := nBatches(sp.Size())
	stride := 1
	if ctx.Thorough() {
		stride = 8
		nEnum = nEnum / 8
	}
	if batch < nEnum {
		lo, hi := batchRange(sp.Size(), batch*stride)
		for i := lo; i < hi; i++ {
			t := sp.At(i)
			c15Tree(ctx, t, i%5 == 0)
		}
		return
	}
	r := ctx.Rand("deep")
	leaves := append(append(qt.FullLeaves(), qt.ExtraLeaves()...), qt.HostileLeaves(r, gen.ValueDict(r, 80), 20, false)...)
	for i := 0; i < 600; i++ {
		t := qt.RandomTree(r, leaves, 2+r.Intn(4))
		if t.Size() > 40 {
			continue
		}
		c15Tree(ctx, t, true)
	}
	if batch == nEnum {
		// expressions only the constructors (or a JSON decoder) can build: lists whose members
		// have different operators, patterns as range bounds, expressions in odd places
		for i, e := range c15HandBuilt() {
			e := e
			ctx.Case(fmt.Sprintf("hand-built expression %d: %s", i, e.String()), func() { c15Fold(ctx, fmt.Sprintf("hand-built %d", i), e, true) })
		}
		for _, t := range qt.RelationTrees() {
			c15Tree(ctx, t, true)
			ctx.Count("relation_trees", 1)
		}
		// big nodes: value lists of up to a few thousand members and left-deep chains of as many
		// clauses (every size a limit written in the tree under test names is met from both
		// sides): still one call per node, with the children's results, and nothing else
		for _, n := range gen.Sizes([]int{0, 1, 2, 3, 17, 255, 256, 257, 1000, 1001, 1024, 1025, 4097}, 0, 5000) {
			n := n
			items := make([]*expr.Expression, n)
			for i := range items {
				if i%3 == 0 {
					items[i] = expr.Lit(i)
				} else {
					items[i] = expr.Lit(fmt.Sprintf("v%d", i))
				}
			}
			big := expr.IN("a", expr.LIST(items))
			ctx.Case(fmt.Sprintf("value list of %d members", n), func() { c15Fold(ctx, fmt.Sprintf("list of %d", n), big, true) })
			ctx.Case(fmt.Sprintf("value list of %d members under NOT / OR", n), func() {
				c15Fold(ctx, fmt.Sprintf("list of %d under NOT/AND", n), expr.AND(expr.NOT(big), expr.Eq("c", "d")), true)
			})
			if n <= 2100 {
				var chain *expr.Expression = expr.Eq("f0", 0)
				for i := 1; i < n; i++ {
					if n%2 == 0 {
						chain = expr.OR(chain, expr.Eq(fmt.Sprintf("f%d", i), i))
					} else {
						chain = expr.AND(chain, expr.Eq(fmt.Sprintf("f%d", i), i))
					}
				}
				ctx.Case(fmt.Sprintf("chain of %d clauses", n), func() { c15Fold(ctx, fmt.Sprintf("chain of %d", n), chain, true) })
			}
			ctx.Count("big_node_trees", 1)
		}
		// every explicit amount, 0 and 1 included, on every leaf and under every operator: the
		// ~ / ^ node must be there and must make the stock renderers fail
		for _, l := range qt.QuickLeaves() {
			for _, a := range qt.FuzzyAmounts {
				for _, t := range []*qt.Node{qt.FuzzyN(l, a), qt.And(qt.FuzzyN(l, a), qt.F("c", qt.Word("d"))), qt.Not(qt.FuzzyN(l, a)), qt.Or(qt.T(qt.Word("x")), qt.Must(qt.FuzzyN(l, a))), qt.BoostN(qt.FuzzyN(l, a), "2")} {
					c15Tree(ctx, t, true)
					ctx.Count("explicit_amount_trees", 1)
				}
			}
			for _, a := range qt.BoostAmounts {
				for _, t := range []*qt.Node{qt.BoostN(l, a), qt.And(qt.F("c", qt.Word("d")), qt.BoostN(l, a)), qt.MustNot(qt.BoostN(l, a)), qt.FuzzyN(qt.BoostN(l, a), 0)} {
					c15Tree(ctx, t, true)
					ctx.Count("explicit_amount_trees", 1)
				}
			}
		}
	}
}

// retyped returns base with its operator and right operand replaced: a shape the constructors
// refuse to build (they promote it) but a JSON decoder or field-by-field assembly produces.
func retyped(base *expr.Expression, op expr.Operator, right any) *expr.Expression {
	c := *base
	c.Op = op
	c.Right = right
	return &c
}

func c15HandBuilt() []*expr.Expression {
	l := func(es ...*expr.Expression) *expr.Expression { return expr.LIST(es) }
	return []*expr.Expression{
		expr.IN("a", l(expr.WILD("b*"), expr.Lit("c"))),
		expr.IN("a", l(expr.Lit("c"), expr.WILD("b*"))),
		expr.IN("a", l(expr.REGEXP("/r/"), expr.Lit(1), expr.WILD("x?"))),
		expr.IN("a", l(expr.Lit("x"), expr.REGEXP("/r/"), expr.Lit("y"))),
		expr.AND(expr.IN("a", l(expr.WILD("b*"), expr.Lit("c"), expr.Lit("d"))), expr.Eq("e", "f")),
		expr.NOT(expr.IN("a", l(expr.Lit(1.5), expr.WILD("?"), expr.Lit("z")))),
		expr.Rang("a", expr.WILD("b*"), expr.REGEXP("/z/"), true),
		expr.Rang("a", expr.Lit("x"), expr.WILD("y?"), false),
		expr.Eq("a", expr.AND(expr.Lit("x"), expr.WILD("y*"))),
		expr.GREATER("a", expr.OR(expr.Lit(1), expr.REGEXP("/r/"))),
		expr.OR(expr.MUST(expr.WILD("w*")), expr.MUSTNOT(expr.REGEXP("/r/"))),
		expr.LIKE("a", expr.WILD("x*")),
		expr.LIKE("a", expr.REGEXP("/x/")),
		expr.AND(expr.WILD("w*"), expr.REGEXP("/r/")),
		// a node's function is chosen by the node's operator, whatever its operands are
		retyped(expr.Eq("a", "x"), expr.Equals, expr.WILD("b*")),
		retyped(expr.Eq("a", "x"), expr.Equals, expr.REGEXP("/r/")),
		retyped(expr.Eq("a", "x"), expr.Like, expr.Lit("plain")),
		retyped(expr.Eq("a", "x"), expr.Greater, expr.WILD("b?")),
		retyped(expr.Eq("a", "x"), expr.LessEq, expr.REGEXP("/r/")),
		expr.AND(retyped(expr.Eq("a", "x"), expr.Equals, expr.WILD("b*")), expr.Eq("c", "d")),
		expr.NOT(retyped(expr.Eq("a", "x"), expr.Equals, expr.REGEXP("/r/"))),
		expr.OR(expr.MUST(retyped(expr.Eq("a", "x"), expr.Equals, expr.WILD("*"))), expr.LIKE("e", expr.WILD("f*"))),
		retyped(expr.Eq("a", "x"), expr.Equals, expr.Eq("b", "c")),
		retyped(expr.Eq("a", "x"), expr.In, expr.Lit("not-a-list")),
		retyped(expr.Eq("a", "x"), expr.And, expr.WILD("w*")),
	}
}

func c15Tree(ctx *core.Ctx, t *qt.Node, variants bool) {
	text := qt.Print(t, qt.Style{})
	// both routes to an expression: the constructors and the parser
	exprs := []*expr.Expression{t.Expr()}
	if pe, err, ok := parse(ctx, text, ""); ok && err == nil {
		exprs = append(exprs, pe)
	}
	// a third route: the JSON decoder, which re-types leaves from their text (a quoted "b*"
	// comes back as a pattern under an unchanged EQUALS)
	if len(exprs) == 2 {
		if b, merr := json.Marshal(exprs[1]); merr == nil {
			var d expr.Expression
			if ctx.Call("UnmarshalJSON", func() { merr = json.Unmarshal(b, &d) }) && merr == nil {
				exprs = append(exprs, &d)
				ctx.Count("decoded_trees", 1)
			}
		}
	}
	for ei, e := range exprs {
		ctx.Case(text, func() { c15Fold(ctx, text, e, variants && ei != 1) })
	}
	// last clause: fuzzy / boost anywhere => both package-level renderers fail
	hasFB := false
	t.Walk(func(n *qt.Node) {
		if n.Kind == qt.KFuzzy || n.Kind == qt.KBoost {
			hasFB = true
		}
	})
	if hasFB {
		ctx.Case(text, func() {
			var s1, s2 string
			var e1, e2 error
			if !ctx.Call("ToPostgres", func() { s1, e1 = lucene.ToPostgres(text) }) {
				return
			}
			if !ctx.Call("ToParameterizedPostgres", func() { s2, _, e2 = lucene.ToParameterizedPostgres(text) }) {
				return
			}
			ctx.Count("fuzzy_boost_queries", 1)
			if e1 == nil {
				ctx.Violate("c15:fuzzy-boost-rendered:inline", "ToPostgres(%q) succeeds although the query has a fuzzy/boost operator: %q", text, s1)
			}
			if e2 == nil {
				ctx.Violate("c15:fuzzy-boost-rendered:param", "ToParameterizedPostgres(%q) succeeds although the query has a fuzzy/boost operator: %q", text, s2)
			}
		})
	}
}

// argOK: got is tok, bare or in one pair of parentheses.
func argOK(got, tok string) bool { return got == tok || got == "("+tok+")" }

func c15Fold(ctx *core.Ctx, text string, e *expr.Expression, variants bool) {
	tr := &tracer{}
	base := driver.Base{RenderFNs: tr.fullMap()}
	var out string
	var err error
	if !ctx.Call("Base.Render", func() { out, err = base.Render(e) }) {
		return
	}
	ctx.Count("folds", 1)
	if err != nil {
		// only column-name checks may fail with a complete function map
		ctx.Count("render_errors_full_map", 1)
		ctx.Violate("c15:error-with-full-map", "Render with a function for every operator fails on %q: %v", text, err)
		return
	}
	nodes := []*expr.Expression{}
	exprNodes(e, &nodes)
	ctx.Count("calls_logged", int64(len(tr.calls)))
	if len(tr.calls) != len(nodes) {
		ctx.Violate("c15:call-count", "tree of %q has %d expression nodes but %d render functions were called", text, len(nodes), len(tr.calls))
		return
	}
	// replay the log against the tree: post-order, operator of the node, children's tokens
	tokOf := map[*expr.Expression]string{}
	for i, n := range nodes {
		c := tr.calls[i]
		if c.op != n.Op {
			ctx.Violate("c15:order-or-operator", "call %d of %q: function of %v called where the bottom-up fold reaches a %v node", i, text, c.op, n.Op)
			return
		}
		ctx.Count("calls_"+n.Op.String(), 1)
		tokOf[n] = c.tok
		if n.Op == expr.Literal || n.Op == expr.Wild || n.Op == expr.Regexp {
			continue // the argument is the serialised raw value; its form is C02's business
		}
		// left
		switch l := n.Left.(type) {
		case *expr.Expression:
			if !argOK(c.left, tokOf[l]) {
				ctx.Violate("c15:left-argument:"+n.Op.String(), "%v node of %q: left argument %q is not the rendered left child %q", n.Op, text, c.left, tokOf[l])
				return
			}
		case []*expr.Expression:
			toks := []string{}
			for _, x := range l {
				toks = append(toks, tokOf[x])
			}
			if c.left != strings.Join(toks, ", ") && c.left != strings.Join(toks, ",") {
				ctx.Violate("c15:list-argument", "LIST node of %q: argument %q is not the rendered members %v", text, c.left, toks)
				return
			}
		}
		switch r := n.Right.(type) {
		case *expr.Expression:
			if !argOK(c.right, tokOf[r]) {
				ctx.Violate("c15:right-argument:"+n.Op.String(), "%v node of %q: right argument %q is not the rendered right child %q", n.Op, text, c.right, tokOf[r])
				return
			}
		case *expr.RangeBoundary:
			lo, _ := r.Min.(*expr.Expression)
			hi, _ := r.Max.(*expr.Expression)
			want1 := tokOf[lo] + ", " + tokOf[hi]
			inner := strings.TrimSpace(c.right)
			if len(inner) >= 2 {
				inner = inner[1 : len(inner)-1]
			}
			if inner != want1 {
				ctx.Violate("c15:range-argument", "RANGE node of %q: right argument %q does not hold the rendered bounds %q in order", text, c.right, want1)
				return
			}
		case nil:
			if c.right != "" {
				ctx.Violate("c15:right-argument-unexpected:"+n.Op.String(), "%v node of %q has no right child but its function received %q", n.Op, text, c.right)
				return
			}
		}
	}
	if out != tr.calls[len(tr.calls)-1].tok && out != "("+tr.calls[len(tr.calls)-1].tok+")" {
		ctx.Violate("c15:result", "Render(%q) returned %q, the root function returned %q", text, out, tr.calls[len(tr.calls)-1].tok)
	}
	ctx.Distinct("skeletons", fmt.Sprint(len(nodes))+text)
	// the same fold with functions whose result depends on their arguments only: equal members
	// of a list, equal operands of an AND … now render to equal texts, and every one of them must
	// still be visited and handed on
	trs := &tracer{structural: true}
	var outS string
	var errS error
	if ctx.Call("Base.Render(structural)", func() { outS, errS = driver.Base{RenderFNs: trs.fullMap()}.Render(e) }) {
		ctx.Count("structural_folds", 1)
		if errS != nil || len(trs.calls) != len(nodes) {
			ctx.Violate("c15:structural-call-count", "tree of %q has %d expression nodes but %d render functions were called when equal operands render to equal texts (err %v)", text, len(nodes), len(trs.calls), errS)
			return
		}
		resOf := map[*expr.Expression]string{}
		for i, n := range nodes {
			c := trs.calls[i]
			if c.op != n.Op {
				ctx.Violate("c15:structural-order-or-operator", "call %d of %q: function of %v called where the fold reaches a %v node", i, text, c.op, n.Op)
				return
			}
			resOf[n] = c.tok
			if l, isList := n.Left.([]*expr.Expression); isList {
				toks := []string{}
				for _, x := range l {
					toks = append(toks, resOf[x])
				}
				if c.left != strings.Join(toks, ", ") && c.left != strings.Join(toks, ",") {
					ctx.Violate("c15:structural-list-argument", "LIST node of %q: argument %q is not the rendered members %q in order", text, c.left, toks)
					return
				}
			}
			if l, isExpr := n.Left.(*expr.Expression); isExpr && n.Op != expr.Literal && n.Op != expr.Wild && n.Op != expr.Regexp && !argOK(c.left, resOf[l]) {
				ctx.Violate("c15:structural-left-argument:"+n.Op.String(), "%v node of %q: left argument %q is not the rendered left child %q", n.Op, text, c.left, resOf[l])
				return
			}
			if r, isExpr := n.Right.(*expr.Expression); isExpr && !argOK(c.right, resOf[r]) {
				ctx.Violate("c15:structural-right-argument:"+n.Op.String(), "%v node of %q: right argument %q is not the rendered right child %q", n.Op, text, c.right, resOf[r])
				return
			}
		}
		_ = outS
	}
	if !variants {
		return
	}
	present := map[expr.Operator]int{}
	for _, n := range nodes {
		present[n.Op]++
	}
	for _, op := range allOps {
		// override: replacing one operator's function changes the output only at its nodes
		tr2 := &tracer{}
		m := tr2.fullMap()
		m[op] = tr2.fn(op, true)
		var out2 string
		var err2 error
		if !ctx.Call("Base.Render(override)", func() { out2, err2 = driver.Base{RenderFNs: m}.Render(e) }) {
			return
		}
		ctx.Count("override_cases", 1)
		if err2 != nil || len(tr2.calls) != len(tr.calls) {
			ctx.Violate("c15:override-changes-shape:"+op.String(), "overriding %v on %q: err=%v, %d calls instead of %d", op, text, err2, len(tr2.calls), len(tr.calls))
			return
		}
		altCalls := 0
		for i, c := range tr2.calls {
			b := tr.calls[i]
			if c.alt {
				altCalls++
			}
			if c.op != b.op || normTok(c.left) != b.left || normTok(c.right) != b.right || c.alt != (c.op == op) {
				ctx.Violate("c15:override-leaks:"+op.String(), "overriding %v on %q changed call %d: %v(%q, %q) alt=%v, was %v(%q, %q)", op, text, i, c.op, c.left, c.right, c.alt, b.op, b.left, b.right)
				return
			}
		}
		if altCalls != present[op] || normTok(out2) != out {
			ctx.Violate("c15:override-count:"+op.String(), "overriding %v on %q: replacement called %d times for %d nodes; output %q vs %q", op, text, altCalls, present[op], out2, out)
			return
		}
		// a function may return anything, the empty string included ("drop this clause"): the fold
		// still visits every node and still calls every other node's function
		if present[op] > 0 {
			tr4 := &tracer{}
			m4 := tr4.fullMap()
			inner := tr4.fn(op, true)
			m4[op] = func(l, r string) (string, error) { _, _ = inner(l, r); return "", nil }
			var err4 error
			if !ctx.Call("Base.Render(blank)", func() { _, err4 = driver.Base{RenderFNs: m4}.Render(e) }) {
				return
			}
			ctx.Count("blank_cases", 1)
			if err4 != nil || len(tr4.calls) != len(tr.calls) {
				ctx.Violate("c15:blank-result-changes-fold:"+op.String(), "with the function of %v returning the empty string, Render(%q) makes %d calls instead of %d (err %v)", op, text, len(tr4.calls), len(tr.calls), err4)
				return
			}
			for i, c := range tr4.calls {
				if c.op != tr.calls[i].op {
					ctx.Violate("c15:blank-result-changes-fold:"+op.String(), "with the function of %v returning the empty string, call %d of Render(%q) is %v instead of %v", op, i, text, c.op, tr.calls[i].op)
					return
				}
			}
		}
		// removal: a missing function for an operator of the tree is an error and no partial text
		tr3 := &tracer{}
		m3 := tr3.fullMap()
		delete(m3, op)
		var out3 string
		var err3 error
		if !ctx.Call("Base.Render(removal)", func() { out3, err3 = driver.Base{RenderFNs: m3}.Render(e) }) {
			return
		}
		ctx.Count("removal_cases", 1)
		if present[op] > 0 {
			ctx.Distinct("nontrivial", op.String()+"|"+text)
			if err3 == nil {
				ctx.Violate("c15:missing-function-ignored:"+op.String(), "no function for %v, which occurs in %q, but Render succeeds with %q", op, text, out3)
				return
			}
			if out3 != "" {
				ctx.Violate("c15:partial-output:"+op.String(), "no function for %v on %q: Render returns the error %v together with %q", op, text, err3, out3)
				return
			}
		} else if err3 != nil || out3 != out {
			ctx.Violate("c15:removal-of-absent-operator:"+op.String(), "removing the function of %v, which does not occur in %q, changed the result: %q (%v) vs %q", op, text, out3, err3, out)
			return
		}
	}
	if ctx.Index()%301 == 0 {
		ctx.Sample("tree", text)
	}
}

func (c15) Finish(res *core.Result, cov map[string]any) []string {
	reasons := []string{}
	cov["distinct_nontrivial"] = res.NDistinct("nontrivial")
	cov["exhaustive"] = true
	cov["rule"] = "depth<=2 trees over the leaf alphabet (exhaustive in the quick tier over 8 leaves; 1:8 sample over 27 leaves in the thorough tier) and random deeper trees (explicit ~/^ amounts including 0 and 1), hand-built and re-typed nodes (EQUALS over a pattern, LIKE over a plain value, …), built with the constructors, parsed, and decoded from their JSON encoding, rendered by driver.Base with a tracing function per operator; the call log is replayed against the tree, once with a fresh token per call and once with functions whose result depends only on their arguments (one call per expression node, bottom-up, children's results as arguments, bare or in one pair of parentheses). For every operator: its function replaced (other calls must not change), made to return the empty string (the fold must not change) and removed (error and no partial text iff the operator occurs). Queries with ~ or ^ through ToPostgres/ToParameterizedPostgres must fail. Non-trivial = distinct (removed operator, tree) where the operator occurs."
	floor(res.Counters["folds"] >= 1000, &reasons, "folds %d", res.Counters["folds"])
	floor(res.Counters["fuzzy_boost_queries"] >= 500, &reasons, "fuzzy/boost queries %d", res.Counters["fuzzy_boost_queries"])
	for _, op := range allOps {
		floor(res.Counters["calls_"+op.String()] > 0, &reasons, "no call logged for %v", op)
	}
	return reasons
}
