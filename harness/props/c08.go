package props

import (
	"fmt"
	"math/rand"
	"reflect"
	"regexp"
	"strconv"
	"strings"
	"unicode/utf8"

	lucene "github.com/grindlemire/go-lucene"
	"github.com/grindlemire/go-lucene/verif/core"
	"github.com/grindlemire/go-lucene/verif/gen"
	"github.com/grindlemire/go-lucene/verif/mon"
	"github.com/grindlemire/go-lucene/verif/oracle"
	"github.com/grindlemire/go-lucene/verif/qt"
)

// C08: quoting and escaping deliver values verbatim.
type c08 struct{}

func init() { core.Register(c08{}) }

func (c08) ID() string { return "C08" }

func c08Random(tier string) int {
	if tier == "thorough" {
		return 400
	}
	return 12
}

// batches: 0 dictionary, 1 single chars + embedded, 2..3 pairs, 4 lengths, then random
func (c08) Batches(tier string, seed int64) int { return 5 + c08Random(tier) }

var c08Alphabet = []string{
	"a", "Z", "5", "0", " ", "  ", "\t", "\n", "\r", "'", "''", `\`, `\\`, "*", "?", "/", "-", "+", ".", ":", "=", "<", ">", "~", "^", "(", ")", "[", "]", "{", "}",
	"!", ",", ";", "%", "_", "$", "#", "@", "&", "|", "`", "AND", "or", "NOT", "TO", "é", "日", "😀", "\u00a0", "\u2028", "--", "/*", "*/", "$$", "1e5", "NaN", "x",
}

func (c08) RunBatch(ctx *core.Ctx, batch int) {
	mon.Install()
	switch batch {
	case 0:
		for _, w := range gen.HostileStrings {
			c08String(ctx, "dict", w)
		}
	case 1:
		for _, c := range gen.AsciiPrintable() {
			c08String(ctx, "char", c)
			c08String(ctx, "embedded", "a"+c+"b")
			c08String(ctx, "embedded", c+"x")
			c08String(ctx, "embedded", "x"+c)
		}
	case 2, 3:
		cs := gen.AsciiPrintable()
		for i, a := range cs {
			if i%2 != batch-2 {
				continue
			}
			for _, b := range cs {
				c08String(ctx, "pair", a+b)
			}
		}
	case 4:
		for n := 0; n <= 64; n++ {
			c08String(ctx, "length", strings.Repeat("a", n))
			c08String(ctx, "length", strings.Repeat("é", n))
			c08String(ctx, "length", strings.Repeat("' ", n))
		}
		c08String(ctx, "length", strings.Repeat("ab ", 3334))
		c08String(ctx, "length", strings.Repeat(`\`, 10000))
		c08String(ctx, "length", strings.Repeat("'", 10000))
	default:
		r := ctx.Rand("random")
		for i := 0; i < 2500; i++ {
			n := 1 + r.Intn(8)
			var b strings.Builder
			for k := 0; k < n; k++ {
				b.WriteString(c08Alphabet[r.Intn(len(c08Alphabet))])
			}
			c08String(ctx, "random", b.String())
			if i%2 == 0 {
				c08String(ctx, "random-class", gen.RandString(r))
			}
		}
		_ = rand.Int
	}
}

func isKeyword(w string) bool {
	switch strings.ToUpper(w) {
	case "AND", "OR", "NOT", "TO":
		return true
	}
	return false
}

func isNumericText(w string) bool {
	if _, err := strconv.Atoi(w); err == nil {
		return true
	}
	_, err := strconv.ParseFloat(w, 64)
	return err == nil
}

// special reports whether w has a character that matters to the lexer, the SQL quoting or the
// pattern translation.
func special(w string) bool {
	return strings.ContainsAny(w, " \t\r\n'\\*?/-+.:=<>~^()[]{}!,;%_$#@&|`") || !utf8.ValidString(w) || strings.ContainsRune(w, 0)
}

func c08String(ctx *core.Ctx, class, w string) {
	if strings.Contains(w, `"`) {
		return
	}
	q := qt.Phrase(w)
	c08Positions(ctx, class, "quoted", w, q)
	if w != "" && !isNumericText(w) && !isKeyword(w) {
		e := qt.Escaped(w)
		c08Positions(ctx, class, "escaped", w, e)
	}
}

var plainNumber = regexp.MustCompile(`^-?[0-9]+(\.[0-9]+)?$`)

func c08Positions(ctx *core.Ctx, class, spelling, w string, v qt.Value) {
	other := qt.Word("zzz")
	cases := []struct {
		pos  string
		tree *qt.Node
		df   string
		strs []string // expected string constants / parameters, in order
	}{
		{"field-value", qt.F("f", v), "", []string{w}},
		{"bare-default-field", qt.T(v), "dfl", []string{w}},
		{"range-low", qt.Range("f", v, other, true), "", []string{w, "zzz"}},
		{"range-high", qt.Range("f", other, v, false), "", []string{"zzz", w}},
		{"range-open", qt.Range("f", v, qt.Open(), true), "", []string{w}},
		{"list-member", qt.List("f", v, other), "", []string{w, "zzz"}},
		{"comparison", qt.Cmp("f", ">=", v), "", []string{w}},
		{"in-compound", qt.And(qt.Not(qt.F("f", v)), qt.F("g", other)), "", []string{w, "zzz"}},
		// the same value more than once in one list: every occurrence is a value of its own
		{"list-twice", qt.List("f", v, v), "", []string{w, w}},
		{"list-twice-of-three", qt.List("f", other, v, v), "", []string{"zzz", w, w}},
	}
	if spelling == "quoted" && plainNumber.MatchString(w) {
		// quoted digits next to the number they spell: a string and a number, both kept
		num := qt.Float(w)
		if _, err := strconv.Atoi(w); err == nil {
			num = qt.IntText(w)
		}
		cases = append(cases, struct {
			pos  string
			tree *qt.Node
			df   string
			strs []string
		}{"list-next-to-its-number", qt.List("f", num, v), "", []string{w}}, struct {
			pos  string
			tree *qt.Node
			df   string
			strs []string
		}{"list-before-its-number", qt.List("f", v, num, other), "", []string{w, "zzz"}})
	}
	for _, c := range cases {
		c := c
		text := qt.Print(c.tree, qt.Style{})
		ctx.Case(text, func() { c08Check(ctx, class, spelling, c.pos, w, text, c.tree, c.df, c.strs) })
	}
}

func c08Check(ctx *core.Ctx, class, spelling, pos, w, text string, tree *qt.Node, df string, strs []string) {
	sigBase := "c08:" + spelling + ":" + pos
	got, err, ok := parse(ctx, text, df)
	if !ok {
		return
	}
	ctx.Count("strings_"+spelling+"_"+pos, 1)
	ctx.Count("class_"+class, 1)
	ctx.Count(fmt.Sprintf("bytes_%03d", minInt(len(w)/8*8, 64)), 1)
	if err != nil {
		ctx.Violate(sigBase+":parse-error", "the %s spelling %q of the string %q does not parse: %v", spelling, text, w, err)
		return
	}
	want := tree.Expr()
	if df != "" {
		want = qt.F(df, tree.Val).Expr()
	}
	if !deepEqual(got, want) {
		ctx.Violate(sigBase+":tree", "string %q spelled %q\n  want %s\n  got  %s", w, text, gostr(want), gostr(got))
		return
	}
	if special(w) {
		ctx.Distinct("nontrivial", w)
	}
	for _, r := range w {
		if r < 0x7f && r >= 0x20 {
			ctx.Distinct("ascii_chars", string(r))
		}
	}
	unrenderable := !utf8.ValidString(w) || strings.ContainsRune(w, 0)
	// inline
	var sql string
	var serr error
	if ctx.Call("ToPostgres", func() {
		if df != "" {
			sql, serr = lucene.ToPostgres(text, lucene.WithDefaultField(df))
		} else {
			sql, serr = lucene.ToPostgres(text)
		}
	}) {
		switch {
		case serr != nil && unrenderable:
			ctx.Count("rejected_nul_or_invalid_utf8", 1)
		case serr != nil:
			ctx.Violate(sigBase+":inline-render-error:"+c08ValueClass(w), "string %q spelled %q: ToPostgres fails: %v", w, text, serr)
		default:
			res := oracle.PgRead(sql)
			if res.Skipped != "" {
				ctx.Count("pg_skipped", 1)
			} else if res.Reject != "" {
				ctx.Violate(sigBase+":inline-not-sql", "string %q spelled %q renders %q: %s", w, text, sql, res.Reject)
			} else {
				consts := []string{}
				res.IR.Walk(func(n *oracle.IR) {
					if n.Kind == oracle.IStr {
						consts = append(consts, n.Str)
					}
				})
				// how an unbounded end is rendered is C03's business: the constant '*' that
				// stands for it is not one of the strings this property speaks about
				if pos == "range-open" && len(consts) == len(strs)+1 && consts[len(consts)-1] == "*" {
					consts = consts[:len(consts)-1]
				}
				if !reflect.DeepEqual(consts, strs) {
					ctx.Violate(sigBase+":inline-constant:"+c08ValueClass(w), "string %q spelled %q renders %q; PostgreSQL decodes the string constants %q, want %q", w, text, sql, consts, strs)
				} else {
					ctx.Count("inline_constants_confirmed", 1)
				}
			}
		}
	}
	// parameterized
	var psql string
	var params []any
	var perr error
	if ctx.Call("ToParameterizedPostgres", func() {
		if df != "" {
			psql, params, perr = lucene.ToParameterizedPostgres(text, lucene.WithDefaultField(df))
		} else {
			psql, params, perr = lucene.ToParameterizedPostgres(text)
		}
	}) {
		switch {
		case perr != nil && unrenderable:
		case perr != nil:
			ctx.Violate(sigBase+":param-render-error:"+c08ValueClass(w), "string %q spelled %q: ToParameterizedPostgres fails: %v", w, text, perr)
		default:
			wantP := []any{}
			for _, s := range strs {
				wantP = append(wantP, s)
			}
			// this property speaks about the string values; a number standing next to them in a
			// list is a parameter too, but its value is C04's business
			if strings.HasPrefix(pos, "list-") && strings.Contains(pos, "-its-number") {
				only := []any{}
				for _, p := range params {
					if _, isStr := p.(string); isStr {
						only = append(only, p)
					}
				}
				if len(only) != len(params)-1 {
					only = params // the number is gone or was re-typed: report the full list
				}
				params = only
			}
			if !reflect.DeepEqual(params, wantP) {
				ctx.Violate(sigBase+":params:"+c08ValueClass(w), "string %q spelled %q: parameters %#v, want %#v (sql %q)", w, text, params, wantP, psql)
			} else {
				ctx.Count("params_confirmed", 1)
			}
		}
	}
	if ctx.Index()%613 == 0 {
		ctx.Sample(spelling+"_"+pos, text)
	}
}

// c08ValueClass is the part of a signature that describes the value, computed from w alone.
func c08ValueClass(w string) string {
	switch {
	case w == "*":
		return "star"
	case strings.Contains(w, ","):
		return "comma"
	}
	return "other"
}

func (c08) Finish(res *core.Result, cov map[string]any) []string {
	reasons := []string{}
	cov["distinct_nontrivial"] = res.NDistinct("nontrivial")
	cov["ascii_chars_covered"] = res.NDistinct("ascii_chars")
	cov["assumptions"] = []string{"values with NUL or invalid UTF-8 cannot be SQL text; the renderer rejecting them is counted, not a violation"}
	cov["rule"] = "strings from the hostile dictionary, every printable ASCII character alone, embedded and in all pairs, lengths 0..64 and 10^4, and seeded random concatenations of special fragments; each written between double quotes and (when non-numeric, non-keyword) as a fully backslash-escaped bare word, in 8 positions (field value, bare term with default field, range low/high/open, list member, comparison, inside NOT/AND). The parsed tree must be DeepEqual to the constructor-built tree holding the string verbatim, the string constants PostgreSQL decodes from the inline SQL and the returned parameters must be exactly the expected strings in order. Non-trivial = distinct string with a character special to the lexer, the SQL quoting or the pattern translation."
	floor(res.NDistinct("ascii_chars") >= 94, &reasons, "printable ASCII characters covered %d (95 minus the double quote)", res.NDistinct("ascii_chars"))
	floor(res.Counters["inline_constants_confirmed"] >= 5000 && res.Counters["params_confirmed"] >= 5000, &reasons, "confirmed inline %d params %d", res.Counters["inline_constants_confirmed"], res.Counters["params_confirmed"])
	return reasons
}
