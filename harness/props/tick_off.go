//go:build !vtick

package props

// tickEnabled reports whether the step sanitizer overlay is compiled in.
const tickEnabled = false

func tickStart(budget uint64) {}

func tickStop() uint64 { return 0 }

func isBudgetPanic(r any) (uint64, bool) { return 0, false }
