package props

import (
	"fmt"
	"math/rand"
	"strings"
	"unicode"

	"github.com/grindlemire/go-lucene/verif/core"
	"github.com/grindlemire/go-lucene/verif/gen"
	"github.com/grindlemire/go-lucene/verif/mon"
	"github.com/grindlemire/go-lucene/verif/oracle"
	"github.com/grindlemire/go-lucene/verif/qt"
)

// C06: every accepted query's tree is a derivation of the text that was typed.
type c06 struct{}

func init() { core.Register(c06{}) }

func (c06) ID() string { return "C06" }

type c06Plan struct {
	*seqPlan
	nRandSeq int
	nEdit    int
}

func newC06Plan(tier string) *c06Plan {
	p := &c06Plan{seqPlan: newSeqPlan(tier, 24, 600)}
	p.nRandSeq, p.nEdit = 8, 8
	if tier == "thorough" {
		p.nRandSeq, p.nEdit = 120, 120
	}
	return p
}

// c06RuneBatches: every code point of the BMP that is neither letter nor digit (and a stride
// sample of the astral ones) where an operator could stand.
const c06RuneBatches = 4

func (c06) Batches(tier string, seed int64) int {
	p := newC06Plan(tier)
	return p.total() + p.nRandSeq + p.nEdit + c06RuneBatches
}

func (c06) RunBatch(ctx *core.Ctx, batch int) {
	mon.Install()
	defer monFlush(ctx)
	p := newC06Plan(ctx.Tier)
	switch {
	case batch < p.total():
		p.each(ctx, batch, func(kind, in string) {
			ctx.Case(in, func() { c06Check(ctx, kind, in) })
		})
	case batch < p.total()+p.nRandSeq:
		// random token sequences up to length 40, biased towards well-formed fragments
		r := ctx.Rand("randseq")
		frag := append(append([]string{}, gen.Sigma...), "a:b", "a : 5", "f:[1 TO 5]", "f:{* TO b}", "f:(x OR y)", "a:>5", "a:<=2", "( a OR b )", "NOT a", "+ a", "- a", "a ~ 2", "a ^ 1.5", "a AND b", "a OR b")
		for i := 0; i < 3000; i++ {
			n := 1 + r.Intn(40)
			parts := make([]string, n)
			for k := range parts {
				parts[k] = frag[r.Intn(len(frag))]
			}
			in := strings.Join(parts, " ")
			ctx.Case(in, func() { c06Check(ctx, "randseq", in) })
		}
	case batch >= p.total()+p.nRandSeq+p.nEdit:
		k := batch - (p.total() + p.nRandSeq + p.nEdit)
		n := 0
		for r := rune(0x80); r < 0x110000; r++ {
			if r >= 0x10000 && r%37 != 0 {
				continue
			}
			if (r >= 0xd800 && r < 0xe000) || unicode.IsLetter(r) || unicode.IsDigit(r) {
				continue
			}
			n++
			if n%c06RuneBatches != k {
				continue
			}
			c := string(r)
			ctx.Count("non_token_code_points", 1)
			for _, in := range []string{"a" + c + "b", c + "a OR b" + c, "a " + c + " b", "f:" + c + "1 TO 2" + c, "a" + c + c + "5"} {
				in := in
				ctx.Case(in, func() { c06Check(ctx, "rune", in) })
			}
		}
	default:
		// one-edit neighbours of printed trees
		r := ctx.Rand("edit")
		leaves := qt.FullLeaves()
		for i := 0; i < 1200; i++ {
			t := qt.RandomTree(r, leaves, 1+r.Intn(4))
			if t.Size() > 24 {
				continue
			}
			st := qt.Style{}
			if r.Intn(2) == 0 {
				st.FullParens = true
			}
			text := qt.Print(t, st)
			var toks []oracle.Tok
			ctx.Call("Lexer", func() { toks, _ = oracle.Lex(text) })
			words := make([]string, len(toks))
			for k, tk := range toks {
				words[k] = tk.Val
			}
			ctx.Case(text, func() { c06Check(ctx, "tree", text) })
			for k := 0; k < 6; k++ {
				in := strings.Join(editTokens(r, words), " ")
				ctx.Case(in, func() { c06Check(ctx, "edit", in) })
			}
		}
	}
}

func editTokens(r *rand.Rand, w []string) []string {
	out := append([]string{}, w...)
	if len(out) == 0 {
		return []string{gen.Sigma[r.Intn(len(gen.Sigma))]}
	}
	p := r.Intn(len(out))
	switch r.Intn(4) {
	case 0: // delete
		out = append(out[:p:p], out[p+1:]...)
	case 1: // insert
		out = append(out[:p:p], append([]string{gen.Sigma[r.Intn(len(gen.Sigma))]}, out[p:]...)...)
	case 2: // substitute
		out[p] = gen.Sigma[r.Intn(len(gen.Sigma))]
	case 3: // swap neighbours
		if p+1 < len(out) {
			out[p], out[p+1] = out[p+1], out[p]
		}
	}
	return out
}

func tokTypes(toks []oracle.Tok) string {
	var b strings.Builder
	for _, t := range toks {
		fmt.Fprintf(&b, "%d.", int(t.Typ))
	}
	return b.String()
}

func c06Check(ctx *core.Ctx, kind, in string) {
	var toks []oracle.Tok
	lexErr := false
	if !ctx.Call("Lexer", func() { toks, lexErr = oracle.Lex(in) }) {
		return
	}
	for _, df := range []string{"", "dfield"} {
		e, err, ok := parse(ctx, in, df)
		if !ok {
			continue
		}
		ctx.Count("inputs", 1)
		if err != nil {
			continue
		}
		ctx.Count("accepted", 1)
		ctx.Count(fmt.Sprintf("accepted_len_%02d", minInt(len(toks), 12)), 1)
		if lexErr {
			ctx.Violate("c06:accepted-with-lex-error", "Parse(%q) succeeds although the token stream ends in an error", in)
			continue
		}
		// the token sequence the tree is laid over is the input's: each token the lexer reports
		// must be the kind of token its own text is (an exotic character reported as ':' would
		// give the tree an operator that nobody typed)
		badTok := false
		for i, t := range toks {
			if k, isTok := oracle.KindOfText(t.Val); !isTok || k != t.Typ {
				ctx.Violate("c06:token-kind-not-in-text:"+t.Typ.String(), "Parse(%q) succeeds with token %d reported as %v, but its text %q is not such a token", in, i, t.Typ, t.Val)
				badTok = true
				break
			}
		}
		if badTok {
			continue
		}
		if len(toks) > 80 {
			ctx.Count("skipped_too_long", 1)
			continue
		}
		d := oracle.NewDeriver(toks, df)
		if !d.Derives(e) {
			ctx.Violate("c06:not-a-derivation:"+tokTypes(toks)+"=>"+oracle.Skeleton(e), "Parse(%q, default field %q) returned a tree that is not a derivation of the token sequence\n  tokens %v\n  tree   %s", in, df, toks, gostr(e))
			continue
		}
		ctx.Count("derivations_confirmed", 1)
		ctx.Max("max_derive_steps", float64(d.Steps))
		ctx.Distinct("nontrivial", tokTypes(toks))
		if ctx.Index()%397 == 0 {
			ctx.Sample("accepted_"+kind, in)
		}
	}
}

func (c06) Finish(res *core.Result, cov map[string]any) []string {
	reasons := []string{}
	cov["distinct_nontrivial"] = res.NDistinct("nontrivial")
	cov["exhaustive"] = true
	cov["rule"] = "token sequences up to length L over three alphabets (exhaustive: answers 'is any non-query accepted' completely up to L), random sequences of up to 40 fragments, one-token edits of printed trees, fuzzed inputs, and every non-alphanumeric code point of the BMP (plus a stride sample of the astral planes) in the positions of ':', brackets and operators, with and without a default field. For every accepted input each reported token must be the kind of token its text is, and a memoised recogniser checks that the returned tree can be laid over the real lexer's token sequence as a derivation in the documented grammar with each term's typed value. Non-trivial = distinct accepted token-type sequence."
	floor(res.Counters["derivations_confirmed"] >= 1000, &reasons, "derivations confirmed %d", res.Counters["derivations_confirmed"])
	floor(res.Counters["skipped_too_long"]*50 <= res.Counters["accepted"], &reasons, "skipped %d of %d accepted", res.Counters["skipped_too_long"], res.Counters["accepted"])
	reducersAllFired(res, &reasons)
	return reasons
}
