package props

import (
	"fmt"
	"strings"

	"github.com/grindlemire/go-lucene/pkg/lucene/expr"
	"github.com/grindlemire/go-lucene/verif/core"
	"github.com/grindlemire/go-lucene/verif/gen"
	"github.com/grindlemire/go-lucene/verif/mon"
	"github.com/grindlemire/go-lucene/verif/oracle"
	"github.com/grindlemire/go-lucene/verif/qt"
)

// C11: a default field scopes bare terms and changes nothing else.
type c11 struct{}

func init() { core.Register(c11{}) }

func (c11) ID() string { return "C11" }

// default fields that never occur in the generated queries
var c11Fields = []string{"df", "my field", "ünï", `f"q`, strings.Repeat("z", 70), "AND", "5"}

func (c11) Batches(tier string, seed int64) int { return newSeqPlan(tier, 8, 200).total() + 2 }

func (c11) RunBatch(ctx *core.Ctx, batch int) {
	mon.Install()
	defer monFlush(ctx)
	plan := newSeqPlan(ctx.Tier, 8, 200)
	if batch == plan.total()+1 {
		// long queries: the option must not change acceptance at any size
		sizes := []int{100, 513, 600, 1024, 1500}
		if ctx.Thorough() {
			sizes = append(sizes, 3000, 5000)
		}
		for _, fam := range gen.Families {
			for _, n := range gen.Sizes(sizes, 8, 3000) {
				in := fam.Make(n)
				ctx.Case(fmt.Sprintf("family %s n=%d", fam.Name, n), func() { c11Check(ctx, "long", in, "dfl") })
			}
		}
		return
	}
	if batch == plan.total() {
		// full leaf alphabet under every operator, every default field
		sp := qt.NewSpace(append(qt.FullLeaves(), qt.ExtraLeaves()...))
		for _, t := range sp.D1 {
			in := qt.Print(t, qt.Style{})
			for _, f := range c11Fields {
				f := f
				ctx.Case(in, func() { c11Check(ctx, "d1", in, f) })
			}
		}
		// hostile and generated default-field names (the name is taken verbatim: surrounding
		// whitespace, control characters, quotes, keywords, numbers, 60-70 bytes, invalid UTF-8)
		r := ctx.Rand("names")
		names := []string{" dflt", "dflt ", "\tdflt", "dflt\n", "  ", " ", "\t", "\n", "my field\t", " a b ", "*", "?", "a*", "\\", "-", "+", "(", ":", "a:b", "\"", "'", "/", "/x/", "1.5", "-5", "NaN", "TO", "to", "not", "Or"}
		for _, h := range gen.ValueDict(r, 150) {
			if h != "" {
				names = append(names, h)
			}
		}
		sq := qt.NewSpace(qt.QuickLeaves())
		for _, t := range sq.D1 {
			in := qt.Print(t, qt.Style{})
			for _, f := range names {
				f := f
				ctx.Case(in, func() { c11Check(ctx, "names", in, f) })
			}
		}
		ctx.Count("default_field_names", int64(len(names)))
		return
	}
	i := 0
	plan.each(ctx, batch, func(kind, in string) {
		i++
		f := c11Fields[i%len(c11Fields)]
		if strings.Contains(in, f) || (kind == "fuzz" && strings.Contains(strings.ToLower(in), "df")) {
			// the statement is about a field that is not otherwise used in the query
			f = "zq_unused_field"
			if strings.Contains(in, "zq_") {
				return
			}
		}
		ctx.Case(in, func() { c11Check(ctx, kind, in, f) })
	})
}

// eraseField replaces every f:x scoping by x.
func eraseField(x any, f string) any {
	switch v := x.(type) {
	case *expr.Expression:
		if v == nil {
			return v
		}
		if v.Op == expr.Equals || v.Op == expr.Like {
			if col, ok := v.Left.(*expr.Expression); ok && col != nil && col.Op == expr.Literal && col.Left == expr.Column(f) {
				return eraseField(v.Right, f)
			}
		}
		c := *v
		c.Left = eraseField(v.Left, f)
		c.Right = eraseField(v.Right, f)
		return &c
	case []*expr.Expression:
		out := make([]*expr.Expression, len(v))
		for i, e := range v {
			out[i], _ = eraseField(e, f).(*expr.Expression)
		}
		return out
	case *expr.RangeBoundary:
		if v == nil {
			return v
		}
		c := *v
		c.Min = eraseField(v.Min, f)
		c.Max = eraseField(v.Max, f)
		return &c
	}
	return x
}

func leafKind(e *expr.Expression) string {
	switch e.Op {
	case expr.Wild:
		return "wild"
	case expr.Regexp:
		return "regexp"
	}
	switch e.Left.(type) {
	case int:
		return "int"
	case float64:
		return "float"
	}
	return "string"
}

// bareTerms reports bare terms standing as an operand or as the whole query, and counts the
// scoped ones per (parent, kind).
func bareTerms(ctx *core.Ctx, e *expr.Expression, f string) (bare string, wrapped int) {
	var walk func(parent string, x any)
	check := func(parent string, x any) {
		if t, ok := x.(*expr.Expression); ok && t != nil {
			if oracle.IsTermExpr(t) {
				if bare == "" {
					bare = fmt.Sprintf("bare %s term %v under %s", leafKind(t), t.Left, parent)
				}
				return
			}
			if t.Op == expr.Equals || t.Op == expr.Like {
				if col, ok := t.Left.(*expr.Expression); ok && col != nil && col.Left == expr.Column(f) {
					if v, ok := t.Right.(*expr.Expression); ok && v != nil && oracle.IsTermExpr(v) {
						wrapped++
						ctx.Distinct("wrap_cells", parent+"/"+leafKind(v))
					}
				}
			}
		}
		walk(parent, x)
	}
	walk = func(parent string, x any) {
		t, ok := x.(*expr.Expression)
		if !ok || t == nil {
			return
		}
		switch t.Op {
		case expr.And, expr.Or:
			check(t.Op.String(), t.Left)
			check(t.Op.String(), t.Right)
		case expr.Not, expr.Must, expr.MustNot, expr.Fuzzy, expr.Boost:
			check(t.Op.String(), t.Left)
		case expr.Equals, expr.Greater, expr.Less, expr.GreaterEq, expr.LessEq:
			// the value of a field may be a group holding operators
			if r, ok := t.Right.(*expr.Expression); ok && r != nil && !oracle.IsTermExpr(r) {
				walk(t.Op.String(), r)
			}
		}
	}
	check("ROOT", e)
	return bare, wrapped
}

func c11Check(ctx *core.Ctx, kind, in, f string) {
	plain, perr, ok1 := parse(ctx, in, "")
	scoped, serr, ok2 := parse(ctx, in, f)
	if !ok1 || !ok2 {
		return
	}
	ctx.Count("pairs", 1)
	// the option is an argument like any other: the outcome with it may not depend on which
	// related texts were parsed before (the field written out in front of the query, the query
	// parsed without the option)
	if ctx.Index()%4 == 0 {
		_, _, _ = parse(ctx, f+":"+in, "")
		_, _, _ = parse(ctx, f+":("+in+")", "")
		again, aerr, ok3 := parse(ctx, in, f)
		plain2, perr2, ok4 := parse(ctx, in, "")
		ctx.Count("related_call_sequences", 1)
		if ok3 && ((aerr == nil) != (serr == nil) || (aerr == nil && !deepEqual(again, scoped))) {
			ctx.Violate("c11:result-depends-on-earlier-calls", "Parse(%q, default field %q) gave %s (err %v) at first and %s (err %v) after the texts %q and %q had been parsed without the option", in, f, gostr(scoped), serr, gostr(again), aerr, f+":"+in, f+":("+in+")")
			return
		}
		if ok4 && ((perr2 == nil) != (perr == nil) || (perr2 == nil && !deepEqual(plain2, plain))) {
			ctx.Violate("c11:result-depends-on-earlier-calls", "Parse(%q) without the option gave %s (err %v) at first and %s (err %v) after it had been parsed with default field %q", in, gostr(plain), perr, gostr(plain2), perr2, f)
			return
		}
	}
	switch {
	case perr == nil && serr != nil:
		ctx.Violate("c11:rejected-with-default-field", "%q parses without a default field but fails with %q: %v", in, f, serr)
		return
	case perr != nil && serr == nil:
		ctx.Violate("c11:accepted-only-with-default-field", "%q fails without a default field (%v) but parses with %q to %s", in, perr, f, gostr(scoped))
		return
	case perr != nil:
		ctx.Count("both_fail", 1)
		return
	}
	ctx.Count("both_parse", 1)
	// the statement speaks about a field that is not otherwise used in the query: decided on the
	// parsed tree, because a field can be spelled quoted or escaped
	prov := &provenance{cols: map[string]bool{}, strs: map[string]bool{}}
	collectProvenance(plain, prov)
	if prov.cols[f] {
		ctx.Count("skipped_field_used_in_query", 1)
		return
	}
	erased, _ := eraseField(scoped, f).(*expr.Expression)
	if !deepEqual(erased, plain) {
		ctx.Violate("c11:erasure-differs:"+oracle.Skeleton(plain), "query %q default field %q\n  with    %s\n  erased  %s\n  without %s", in, f, gostr(scoped), gostr(erased), gostr(plain))
		return
	}
	bare, wrapped := bareTerms(ctx, scoped, f)
	if bare != "" {
		ctx.Violate("c11:bare-term-remains:"+strings.Join(strings.Fields(bare)[:3], "-")+":"+bare[strings.LastIndex(bare, " ")+1:], "query %q with default field %q: %s\n  tree %s", in, f, bare, gostr(scoped))
		return
	}
	if wrapped > 0 {
		ctx.Count("trees_with_wrapped_terms", 1)
		ctx.Distinct("nontrivial", in+"\x00"+f)
		if ctx.Index()%499 == 0 {
			ctx.Sample(kind, fmt.Sprintf("%s  [default field %q]", in, f))
		}
	}
}

func (c11) Finish(res *core.Result, cov map[string]any) []string {
	reasons := []string{}
	cov["distinct_nontrivial"] = res.NDistinct("nontrivial")
	cov["exhaustive"] = true
	cov["wrap_cells_seen"] = res.NDistinct("wrap_cells")
	cov["rule"] = "token sequences up to length L (exhaustive), depth<=2 trees, every depth<=1 tree over the full leaf alphabet and fuzzed inputs, each parsed with and without one of 7 default fields that do not occur in the query (plain, with space, non-ASCII, with a quote, 70 bytes, keyword-like, numeric-like); every depth<=1 tree over the small alphabet with ~400 hostile and generated default-field names (surrounding whitespace, whitespace only, control characters, syntax characters, keywords, numbers, invalid UTF-8). Acceptance must agree, erasing the f: scoping must give back the plain tree, and no bare term may remain as an operand or as the whole query. Non-trivial = distinct (query, field) whose result contains a scoped term."
	floor(res.Counters["both_parse"] >= 1000 && res.Counters["both_fail"] >= 1000, &reasons, "both_parse %d both_fail %d", res.Counters["both_parse"], res.Counters["both_fail"])
	// 8 parents (ROOT AND OR NOT MUST MUST_NOT FUZZY BOOST) x at least 4 leaf kinds
	floor(res.NDistinct("wrap_cells") >= 32, &reasons, "parent x leaf-kind cells %d < 32", res.NDistinct("wrap_cells"))
	_ = gen.Sigma
	return reasons
}
