package props

import (
	"fmt"
	"strings"

	lucene "github.com/grindlemire/go-lucene"
	"github.com/grindlemire/go-lucene/pkg/lucene/expr"
	"github.com/grindlemire/go-lucene/verif/core"
	"github.com/grindlemire/go-lucene/verif/gen"
	"github.com/grindlemire/go-lucene/verif/mon"
	"github.com/grindlemire/go-lucene/verif/oracle"
	"github.com/grindlemire/go-lucene/verif/qt"
)

// C10: results are all-or-nothing and accepted trees are well-formed.
type c10 struct{}

func init() { core.Register(c10{}) }

func (c10) ID() string { return "C10" }

func c10Seqs(tier string) []*gen.TokSeqs {
	if tier == "thorough" {
		return []*gen.TokSeqs{gen.NewTokSeqs(gen.Sigma, 5), gen.NewTokSeqs(gen.SigmaSmall, 7), gen.NewTokSeqs(gen.SigmaRange, 7), gen.NewTokSeqs(gen.SigmaTiny, 9), gen.NewTokSeqs(gen.SigmaAmount, 5)}
	}
	return []*gen.TokSeqs{gen.NewTokSeqs(gen.Sigma, 4), gen.NewTokSeqs(gen.SigmaSmall, 5), gen.NewTokSeqs(gen.SigmaRange, 5), gen.NewTokSeqs(gen.SigmaTiny, 7), gen.NewTokSeqs(gen.SigmaAmount, 4)}
}

// seqPlan lays several token-sequence spaces, a tree block and a fuzz block over batch numbers.
type seqPlan struct {
	seqs   []*gen.TokSeqs
	starts []int // first batch of each space
	nSeq   int
	nTree  int
	nFuzz  int
	nFrag  int
	nHost  int
	nLong  int
	space  *qt.Space
}

func newSeqPlan(tier string, fuzzQuick, fuzzThorough int) *seqPlan {
	p := &seqPlan{seqs: c10Seqs(tier)}
	b := 0
	for _, s := range p.seqs {
		p.starts = append(p.starts, b)
		b += nBatches(s.Size())
	}
	p.nSeq = b
	p.space = qt.NewSpace(qt.QuickLeaves())
	p.nTree = nBatches(p.space.Size())
	p.nFuzz = fuzzQuick
	p.nHost = 8
	p.nLong = 8
	p.nFrag = 6
	if tier == "thorough" {
		p.nFuzz = fuzzThorough
		p.nFrag = 120
	}
	return p
}

func (p *seqPlan) total() int { return p.nSeq + p.nTree + p.nFuzz + p.nFrag + p.nHost + p.nLong }

// hostileInputs places a hostile string in every leaf position, raw, quoted and escaped.
func hostileInputs(h string) []string {
	ins := []string{h, "a:" + h, h + ":b", "a:[" + h + " TO " + h + "]", "a:(" + h + " OR " + h + ")", "a:>" + h, h + "~", h + "^2", "+" + h, "-" + h, "NOT " + h, "x " + h}
	if !strings.Contains(h, `"`) {
		q := qt.Phrase(h).Text
		ins = append(ins, q, "a:"+q, q+":b", "a:["+q+" TO *]", "a:{* TO "+q+"}", "a:("+q+" OR b)", "a:<="+q, q+"~3", "x "+q+" y", "a:("+q+" OR "+q+")")
	}
	if e := qt.Escaped(h).Text; e != "" {
		ins = append(ins, e, "a:"+e, e+":b", "a:["+e+" TO b]", "a:"+e+"*")
	}
	if !strings.Contains(h, "'") {
		// single-quoted: the token keeps its quotes, double quotes inside it are dropped
		ins = append(ins, "'"+h+"'", "a:'"+h+"'", "NOT '"+h+"' b", "a:('"+h+"' OR c)")
	}
	// the string as a field name (raw, quoted, escaped) under every leaf kind
	fields := []string{h}
	if !strings.Contains(h, `"`) {
		fields = append(fields, qt.Phrase(h).Text)
	}
	if e := qt.Escaped(h).Text; e != "" {
		fields = append(fields, e)
	}
	for _, f := range fields {
		ins = append(ins, f+":[1 TO 5]", f+":{10 TO 90}", f+":[* TO 2.5]", f+":{-3 TO *}", f+":[aa TO bb]", f+":>5", f+":<=1.5", f+":(x OR y)", f+":(1 OR 2 OR 3)", f+":w*", f+":/r.e/", f+`:"q s"`, f+"=1")
	}
	return ins
}

// each calls fn for every input of the batch. kind names the generator.
func (p *seqPlan) each(ctx *core.Ctx, batch int, fn func(kind, in string)) {
	switch {
	case batch < p.nSeq:
		k := len(p.seqs) - 1
		for k > 0 && batch < p.starts[k] {
			k--
		}
		s := p.seqs[k]
		lo, hi := batchRange(s.Size(), batch-p.starts[k])
		for i := lo; i < hi; i++ {
			fn("tokseq", s.At(i))
		}
	case batch < p.nSeq+p.nTree:
		lo, hi := batchRange(p.space.Size(), batch-p.nSeq)
		for i := lo; i < hi; i++ {
			fn("tree", qt.Print(p.space.At(i), qt.Style{}))
		}
	case batch >= p.nSeq+p.nTree+p.nFuzz+p.nFrag+p.nHost:
		// long inputs: every scaling family at a few moderate sizes, and random deep trees with
		// hostile leaves
		which := batch - (p.nSeq + p.nTree + p.nFuzz + p.nFrag + p.nHost)
		sizes := gen.Sizes([]int{100, 520, 1100}, 16, 3000)
		for i, fam := range gen.Families {
			if i%p.nLong != which {
				continue
			}
			for _, n := range sizes {
				if in := fam.Make(n); len(in) <= 8<<10 {
					fn("long", in)
				}
			}
		}
		r := ctx.Rand("hostile-trees")
		leaves := append(append(qt.FullLeaves(), qt.ExtraLeaves()...), qt.HostileLeaves(r, gen.ValueDict(r, 200), 60, true)...)
		for i := 0; i < 400; i++ {
			t := qt.RandomTree(r, leaves, 1+r.Intn(5))
			if t.Size() <= 40 {
				fn("hostile-tree", qt.Print(t, qt.Style{}))
			}
		}
		// related parts: same-field pairs, values equal to field names, all-equal lists, …
		for i, t := range qt.RelationTrees() {
			if i%p.nLong == which {
				fn("relation-tree", qt.Print(t, qt.Style{}))
			}
		}
	case batch >= p.nSeq+p.nTree+p.nFuzz+p.nFrag:
		which := batch - (p.nSeq + p.nTree + p.nFuzz + p.nFrag)
		for i, h := range gen.HostileStrings {
			if i%p.nHost != which {
				continue
			}
			for _, in := range hostileInputs(h) {
				fn("hostile", in)
			}
		}
		// seeded random strings from the combinatorial value classes
		rv := ctx.Rand("random-values")
		for i := 0; i < 250; i++ {
			for _, in := range hostileInputs(gen.RandString(rv)) {
				fn("hostile", in)
			}
		}
	case batch >= p.nSeq+p.nTree+p.nFuzz:
		// random sequences of well-formed fragments (longer than the exhaustive bound)
		r := ctx.Rand("fragments")
		for i := 0; i < 3000; i++ {
			n := 1 + r.Intn(10)
			parts := make([]string, n)
			for k := range parts {
				parts[k] = gen.Fragments[r.Intn(len(gen.Fragments))]
			}
			fn("fragments", strings.Join(parts, " "))
		}
	default:
		r := ctx.Rand("fuzz")
		seeds := append([]string{}, gen.RepoSeeds...)
		for i := 0; i < 40; i++ {
			seeds = append(seeds, qt.Print(qt.RandomTree(r, qt.FullLeaves(), 4), qt.Style{}))
		}
		f := gen.NewFuzzer(r, seeds, gen.FuzzDict)
		f.Run(6000, func(in string) { fn("fuzz", in) })
	}
}

func (c10) Batches(tier string, seed int64) int { return newSeqPlan(tier, 16, 400).total() + 1 }

func errClass(err error) string {
	w := strings.Fields(err.Error())
	if len(w) > 3 {
		w = w[:3]
	}
	return strings.Join(w, " ")
}

func (c10) RunBatch(ctx *core.Ctx, batch int) {
	mon.Install()
	defer monFlush(ctx)
	plan := newSeqPlan(ctx.Tier, 16, 400)
	if batch == plan.total() {
		// value lists of 2 … 100000 members (sizes around powers of two and around every integer
		// constant of the code under test): the result tuples must stay all-or-nothing whatever
		// the number of values and parameters
		for _, n := range gen.Sizes([]int{2, 3, 4, 15, 16, 17, 255, 256, 257, 1000, 4096, 32767, 32768, 32769, 65535, 65536, 65537, 100000}, 2, 100000) {
			var b strings.Builder
			b.WriteString("a:(v0")
			for i := 1; i < n; i++ {
				fmt.Fprintf(&b, " OR v%d", i)
			}
			b.WriteString(")")
			one := b.String()
			half := n / 2
			var c strings.Builder
			c.WriteString("NOT a:(1")
			for i := 1; i < half; i++ {
				fmt.Fprintf(&c, " OR %d", i+1)
			}
			c.WriteString(") AND b:(x")
			for i := 1; i < n-half; i++ {
				c.WriteString(" OR \"y z\"")
			}
			c.WriteString(")")
			two := c.String()
			for _, df := range []string{"", "df"} {
				ctx.Case(fmt.Sprintf("value list of %d members", n), func() { c10Check(ctx, "big-list", one, df) })
				if n-half >= 2 && half >= 2 {
					ctx.Case(fmt.Sprintf("two value lists of %d members together", n), func() { c10Check(ctx, "big-list", two, df) })
				}
			}
			ctx.Count("big_lists", 1)
			ctx.Max("largest_value_list", float64(n))
		}
		return
	}
	plan.each(ctx, batch, func(kind, in string) {
		for _, df := range []string{"", "df"} {
			ctx.Case(in, func() { c10Check(ctx, kind, in, df) })
		}
	})
}

func c10Check(ctx *core.Ctx, kind, in, df string) {
	e, err, ok := parse(ctx, in, df)
	if !ok {
		return
	}
	ctx.Count("parse_tuples", 1)
	switch {
	case e == nil && err == nil:
		ctx.Violate("c10:parse:nil-nil", "Parse(%q, df=%q) returned (nil, nil)", in, df)
		return
	case e != nil && err != nil:
		ctx.Violate("c10:parse:both", "Parse(%q, df=%q) returned an expression and the error %v", in, df, err)
		return
	}
	var sql string
	var serr error
	var psql string
	var params []any
	var perr error
	if !ctx.Call("ToPostgres", func() {
		if df != "" {
			sql, serr = lucene.ToPostgres(in, lucene.WithDefaultField(df))
		} else {
			sql, serr = lucene.ToPostgres(in)
		}
	}) {
		return
	}
	if !ctx.Call("ToParameterizedPostgres", func() {
		if df != "" {
			psql, params, perr = lucene.ToParameterizedPostgres(in, lucene.WithDefaultField(df))
		} else {
			psql, params, perr = lucene.ToParameterizedPostgres(in)
		}
	}) {
		return
	}
	ctx.Count("render_tuples", 2)
	if serr == nil && sql == "" {
		ctx.Violate("c10:topostgres:empty-ok", "ToPostgres(%q, df=%q) returned (\"\", nil)", in, df)
	}
	if serr != nil && sql != "" {
		ctx.Violate("c10:topostgres:partial", "ToPostgres(%q, df=%q) returned %q together with the error %v", in, df, sql, serr)
	}
	if perr != nil && psql != "" {
		ctx.Violate("c10:toparam:partial", "ToParameterizedPostgres(%q, df=%q) returned %q together with the error %v", in, df, psql, perr)
	}
	if perr != nil && len(params) != 0 {
		ctx.Count("param_error_with_params", 1)
	}
	if err != nil {
		ctx.Count("rejected", 1)
		ctx.Distinct("error_sites", errClass(err))
		if serr == nil || perr == nil {
			ctx.Violate("c10:render-without-parse", "Parse(%q) fails (%v) but a renderer succeeded: %q / %q", in, err, sql, psql)
		}
		return
	}
	ctx.Count("accepted", 1)
	if serr != nil {
		ctx.Distinct("error_sites", "render: "+errClass(serr))
	}
	var verr error
	if ctx.Call("Validate", func() { verr = expr.Validate(e) }) && verr != nil {
		ctx.Violate("c10:validate:"+errClass(verr), "Parse(%q, df=%q) returned a tree that fails Validate: %v\n  tree %s", in, df, verr, gostr(e))
	}
	if s := oracle.Shape(e); s != "" {
		ctx.Violate("c10:shape:"+s, "Parse(%q, df=%q) returned an ill-formed tree: %s\n  tree %s", in, df, s, gostr(e))
	}
	sk := oracle.Skeleton(e)
	ctx.Distinct("shapes", sk)
	if ctx.Index()%97 == 0 {
		ctx.Sample("accepted_"+kind, in)
	}
}

func (c10) Finish(res *core.Result, cov map[string]any) []string {
	reasons := []string{}
	cov["distinct_nontrivial"] = res.NDistinct("shapes")
	cov["exhaustive"] = true
	cov["rule"] = "all token sequences up to length L over five alphabets (general, operators, ranges, brackets, suffix-operator amounts) (exhaustive; L=4/5 quick, 5/7 thorough), every depth<=2 tree over 8 leaves printed minimally, and a seeded feedback-guided byte fuzzer; each input with and without a default field. Inspected: the result tuples of Parse / ToPostgres / ToParameterizedPostgres, expr.Validate and the harness' own shape walk on every accepted tree. Non-trivial = distinct accepted tree shape (operator skeleton with leaf kinds)."
	floor(res.Counters["accepted"] >= 1000, &reasons, "accepted inputs %d < 1000", res.Counters["accepted"])
	floor(res.Counters["rejected"] >= 1000, &reasons, "rejected inputs %d < 1000", res.Counters["rejected"])
	reducersAllFired(res, &reasons)
	return reasons
}
