package props

import (
	"fmt"
	"math/rand"
	"strings"

	"github.com/grindlemire/go-lucene/verif/core"
	"github.com/grindlemire/go-lucene/verif/gen"
	"github.com/grindlemire/go-lucene/verif/mon"
	"github.com/grindlemire/go-lucene/verif/qt"
)

// C07: juxtaposition means AND, with AND's precedence.
type c07 struct{}

func init() { core.Register(c07{}) }

func (c07) ID() string { return "C07" }

func c07Space(tier string) *qt.Space {
	if tier == "thorough" {
		return qt.NewSpace(qt.FullLeaves())
	}
	return qt.NewSpace(qt.QuickLeaves())
}

func c07Extra(tier string) int {
	if tier == "thorough" {
		return 128
	}
	return 12
}

// c07Stride: the thorough tier samples every 6th batch of the large depth-2 space (each tree
// costs up to 2^6 subsets x 3 styles); the quick tier enumerates its space completely.
func c07Stride(tier string) int {
	if tier == "thorough" {
		return 6
	}
	return 1
}

func (c07) Batches(tier string, seed int64) int {
	return nBatches(c07Space(tier).Size())/c07Stride(tier) + c07Extra(tier) + 2
}

// statement examples: (juxtaposed, explicit)
var c07Named = [][2]string{
	{"NOT a:b c:d", "NOT a:b AND c:d"},
	{"-a:b c:d", "-a:b AND c:d"},
	{"a:b c:d e:f", "a:b AND c:d AND e:f"},
	{"+a:b c:d", "+a:b AND c:d"},
	{"a OR b c", "a OR b AND c"},
	{"a b OR c", "a AND b OR c"},
	{"a:[1 TO 2] b", "a:[1 TO 2] AND b"},
	{"b a:[1 TO 2]", "b AND a:[1 TO 2]"},
	{"a b~2", "a AND b~2"},
	{"a~2 b", "a~2 AND b"},
	{"a^3 b c d e f", "a^3 AND b AND c AND d AND e AND f"},
	{"(a b) c", "(a AND b) AND c"},
	{"a (b c)", "a AND (b AND c)"},
	{"a -b", "a AND -b"},
	{"a +b", "a AND +b"},
	{"a NOT b", "a AND NOT b"},
	{"a (b OR c) d", "a AND (b OR c) AND d"},
	{"x (a)~2", "x AND (a)~2"},
	{"NOT a NOT b", "NOT a AND NOT b"},
	{"a:(x OR y) b", "a:(x OR y) AND b"},
	{"a:>5 b:<6", "a:>5 AND b:<6"},
	{`"p q" "r s"`, `"p q" AND "r s"`},
	{"a 5 -3 1.5", "a AND 5 AND -3 AND 1.5"},
	{"w* /r/ x?", "w* AND /r/ AND x?"},
}

func (p c07) RunBatch(ctx *core.Ctx, batch int) {
	mon.Install()
	defer monFlush(ctx)
	sp := c07Space(ctx.Tier)
	nEnum := nBatches(sp.Size()) / c07Stride(ctx.Tier)
	switch {
	case batch < nEnum:
		lo, hi := batchRange(sp.Size(), batch*c07Stride(ctx.Tier))
		for i := lo; i < hi; i++ {
			t := sp.At(i)
			if len(qt.AndNodes(t)) == 0 {
				continue
			}
			p.checkTree(ctx, t.Clone(), ctx.Rand(fmt.Sprint("s", i)))
		}
	case batch == nEnum:
		for _, t := range qt.RelationTrees() {
			if len(qt.AndNodes(t)) > 0 {
				p.checkTree(ctx, t.Clone(), ctx.Rand("relations"))
			}
		}
		// a value whose escaped spelling puts every special character at its start, in its middle
		// and at its end (x\: looks like a field's colon to a careless look-behind), on either side
		// of the gap and next to every kind of neighbour
		for _, sp := range []string{":", "(", ")", "[", "]", "{", "}", "+", "-", "~", "^", "=", "<", ">", "\"", "'", "/", "*", "?", "\\", " ", "!", ",", ";", "&", "|"} {
			for _, w := range []string{"x" + sp, sp + "x", "x" + sp + "y", sp} {
				if !qt.EscapedOK(w) {
					continue
				}
				v := qt.Escaped(w)
				for _, leaf := range []*qt.Node{qt.F("a", v), qt.T(v), qt.Range("a", qt.Word("b"), v, true)} {
					for _, other := range []*qt.Node{qt.F("c", qt.Word("d")), qt.Not(qt.T(qt.Phrase("p q"))), qt.T(qt.Word("z"))} {
						p.checkTree(ctx, qt.And(leaf.Clone(), other.Clone()), ctx.Rand("edges"))
						p.checkTree(ctx, qt.And(qt.And(other.Clone(), leaf.Clone()), qt.F("e", qt.Word("f"))), ctx.Rand("edges"))
						ctx.Count("escaped_edge_trees", 2)
					}
				}
			}
		}
		// every leaf spelling of the large and rare alphabets (ranges with unlike brackets among
		// them) directly before and directly behind a gap, next to three kinds of neighbour
		for _, leaf := range append(qt.FullLeaves(), qt.ExtraLeaves()...) {
			for _, other := range []*qt.Node{qt.F("c", qt.Word("d")), qt.MustNot(qt.T(qt.Phrase("p q"))), qt.Range("z", qt.Int(1), qt.Int(2), true)} {
				p.checkTree(ctx, qt.And(leaf.Clone(), other.Clone()), ctx.Rand("leafgap"))
				p.checkTree(ctx, qt.And(other.Clone(), leaf.Clone()), ctx.Rand("leafgap"))
				p.checkTree(ctx, qt.Or(qt.And(qt.And(other.Clone(), leaf.Clone()), qt.T(qt.Word("w"))), qt.T(qt.Word("v"))), ctx.Rand("leafgap"))
				ctx.Count("leaf_gap_trees", 3)
			}
		}
		for _, pair := range c07Named {
			pair := pair
			ctx.Case(pair[0], func() { c07Compare(ctx, "named", pair[0], pair[1], 1) })
		}
	case batch == nEnum+c07Extra(ctx.Tier)+1:
		c07Long(ctx)
	default:
		r := ctx.Rand("chains")
		leaves := append(append(qt.FullLeaves(), qt.ExtraLeaves()...), qt.HostileLeaves(r, gen.ValueDict(r, 80), 24, true)...)
		for i := 0; i < 1200; i++ {
			var t *qt.Node
			if i%2 == 0 {
				t = c07Chain(r, leaves)
			} else {
				t = qt.RandomTree(r, leaves, 2+r.Intn(4))
			}
			if t.Size() > 40 || len(qt.AndNodes(t)) == 0 {
				continue
			}
			p.checkTree(ctx, t.Clone(), r)
		}
	}
}

// c07Chain builds AND chains of 3..6 operands with prefix/suffix operators, optionally next to OR.
func c07Chain(r *rand.Rand, leaves []*qt.Node) *qt.Node {
	operand := func() *qt.Node {
		n := leaves[r.Intn(len(leaves))]
		switch r.Intn(8) {
		case 0:
			return qt.Not(n)
		case 1:
			return qt.Must(n)
		case 2:
			return qt.MustNot(n)
		case 3:
			return qt.FuzzyN(n, 2)
		case 4:
			return qt.BoostN(n, "2")
		case 5:
			return qt.Or(n, leaves[r.Intn(len(leaves))])
		}
		return n
	}
	chain := func() *qt.Node {
		k := 3 + r.Intn(4)
		t := operand()
		for i := 1; i < k; i++ {
			t = qt.And(t, operand())
		}
		return t
	}
	t := chain()
	switch r.Intn(4) {
	case 0:
		t = qt.Or(t, chain())
	case 1:
		t = qt.Or(operand(), t)
	case 2:
		t = qt.Not(t)
	}
	return t
}

// c07Long: chains of up to 4097 operands (sizes around powers of two and around 1000), with all,
// every other, or a seeded subset of the gaps juxtaposed, against the all-explicit spelling.
func c07Long(ctx *core.Ctx) {
	r := ctx.Rand("long")
	units := []func(i int) string{
		func(i int) string { return fmt.Sprintf("f%d:v%d", i, i) },
		func(i int) string { return "a" },
		func(i int) string { return "-a:b" },
		func(i int) string { return "+x" },
		func(i int) string { return "NOT a" },
		func(i int) string { return "n:[1 TO 2]" },
		func(i int) string { return "(a OR b)" },
		func(i int) string { return "a~2" },
		func(i int) string { return `"p q"^3` },
		func(i int) string { return "s:(x OR y)" },
	}
	sizes := []int{20, 63, 64, 65, 100, 255, 256, 257, 500, 511, 512, 513, 1000, 1023, 1024, 1025, 1026, 1500, 2047, 2048, 2049}
	if ctx.Thorough() {
		sizes = append(sizes, 3000, 4095, 4096, 4097, 8193)
	}
	sizes = gen.Sizes(sizes, 8, 5000)
	for ui, u := range units {
		for _, n := range sizes {
			if ui > 1 && n > 1100 && n%2 == 0 && !ctx.Thorough() {
				continue
			}
			for mode := 0; mode < 4; mode++ {
				var j, e strings.Builder
				nj := 0
				for i := 0; i < n; i++ {
					if i > 0 {
						sepE, sepJ := " AND ", " AND "
						if mode == 3 && i%7 == 0 {
							sepE, sepJ = " OR ", " OR "
						} else if mode == 0 || mode == 3 || (mode == 1 && i%2 == 0) || (mode == 2 && r.Intn(3) == 0) {
							sepJ = " "
							nj++
						}
						e.WriteString(sepE)
						j.WriteString(sepJ)
					}
					e.WriteString(u(i))
					j.WriteString(u(i))
				}
				js, es := j.String(), e.String()
				ctx.Case(fmt.Sprintf("long chain unit %d n=%d mode=%d", ui, n, mode), func() { c07Compare(ctx, "long", js, es, nj) })
				ctx.Count("long_chains", 1)
				ctx.Max("longest_chain_operands", float64(n))
			}
		}
	}
}

func c07Compare(ctx *core.Ctx, style, j, e string, nJux int) {
	c07CompareDF(ctx, style, j, e, nJux, "")
	// a default field scopes the bare operands; juxtaposition must still mean AND
	if ctx.Index()%2 == 0 {
		c07CompareDF(ctx, style+"+default-field", j, e, nJux, "dfl")
	}
}

func c07CompareDF(ctx *core.Ctx, style, j, e string, nJux int, df string) {
	mon.ImplicitAnds = 0
	je, jerr, ok1 := parse(ctx, j, df)
	injected := mon.ImplicitAnds
	ee, eerr, ok2 := parse(ctx, e, df)
	if !ok1 || !ok2 {
		return
	}
	ctx.Count("pairs", 1)
	switch {
	case jerr != nil && eerr != nil:
		ctx.Count("both_fail", 1)
	case jerr != nil:
		ctx.Violate("c07:juxtaposed-rejected:"+style, "explicit %q parses but juxtaposed %q fails: %v", e, j, jerr)
	case eerr != nil:
		ctx.Violate("c07:explicit-rejected:"+style, "juxtaposed %q parses but explicit %q fails: %v", j, e, eerr)
	case !deepEqual(je, ee):
		ctx.Violate("c07:trees-differ:"+style, "juxtaposed %q\n  gives %s\nexplicit   %q\n  gives %s", j, gostr(je), e, gostr(ee))
	default:
		ctx.Count("both_parse_equal", 1)
		ctx.Count("jux_written", int64(nJux))
		ctx.Count("jux_injected_observed", injected)
		if injected < int64(nJux) {
			// the hook is our own instrumentation: if it did not fire the run is inconclusive
			// about how the juxtaposition was handled (floor in Finish), not a violation
			ctx.Count("jux_not_witnessed_by_hook", 1)
		}
	}
}

func (c07) checkTree(ctx *core.Ctx, t *qt.Node, r *rand.Rand) {
	ands := qt.AndNodes(t)
	styles := []struct {
		name string
		mk   func() qt.Style
	}{
		{"minimal", func() qt.Style { return qt.Style{} }},
		{"tight", func() qt.Style { return qt.Style{Tight: true} }},
	}
	if r.Intn(4) == 0 {
		seed := r.Int63()
		styles = append(styles, struct {
			name string
			mk   func() qt.Style
		}{"mixed", func() qt.Style {
			rr := rand.New(rand.NewSource(seed))
			return qt.Style{WS: wsRun(rr)}
		}})
	}
	for _, s := range styles {
		for _, a := range ands {
			a.Implicit = false
		}
		explicit := qt.Print(t, s.mk())
		// eligible nodes (all other ANDs explicit while judging: eligibility of a node depends
		// only on the text of its own left operand's right edge, which juxtaposing inner nodes
		// does not change)
		elig := []*qt.Node{}
		for _, a := range ands {
			if qt.JuxEligible(a, s.mk()) {
				elig = append(elig, a)
			} else {
				ctx.Count("and_nodes_not_eligible", 1)
			}
		}
		if len(elig) == 0 {
			continue
		}
		nsub := 1 << uint(len(elig))
		masks := []int{}
		if len(elig) <= 6 {
			for m := 1; m < nsub; m++ {
				masks = append(masks, m)
			}
		} else {
			masks = append(masks, nsub-1)
			for k := 0; k < 24; k++ {
				masks = append(masks, 1+r.Intn(nsub-1))
			}
		}
		for _, m := range masks {
			n := 0
			for i, a := range elig {
				a.Implicit = m&(1<<uint(i)) != 0
				if a.Implicit {
					n++
				}
			}
			j := qt.Print(t, s.mk())
			ctx.Case(j, func() { c07Compare(ctx, s.name, j, explicit, n) })
			// context coverage: what stands left and right of each juxtaposition
			for _, a := range elig {
				if a.Implicit {
					ctx.Distinct("contexts", a.Kids[0].Kind.String()+"|"+a.Kids[1].Kind.String())
					if a.Kids[0].Kind != qt.KTerm {
						ctx.Distinct("nontrivial", j)
					}
				}
			}
			if ctx.Index()%3001 == 0 {
				ctx.Sample("pair", j+"   <=>   "+explicit)
			}
		}
		for _, a := range ands {
			a.Implicit = false
		}
	}
}

func (c07) Finish(res *core.Result, cov map[string]any) []string {
	reasons := []string{}
	cov["distinct_nontrivial"] = res.NDistinct("nontrivial")
	cov["exhaustive"] = true
	cov["rule"] = "every depth<=2 tree with at least one AND (exhaustive over the leaf alphabet), AND chains of 3-6 prefixed/suffixed operands next to OR/NOT, random deeper trees, and chains of 20…2049 (thorough 8193) operands of ten shapes with all / every other / a seeded subset of the gaps juxtaposed; for every subset (<= 2^6, sampled beyond) of the AND nodes that may be juxtaposed (left operand text not ending in a bare ~ or ^) the juxtaposed text and the all-explicit text must both fail or parse to DeepEqual trees, without and (every second pair) with a default field; the ImplicitAnd hook must fire at least once per written juxtaposition. Non-trivial = distinct juxtaposed text with a juxtaposition whose left operand is not a bare term."
	cov["contexts_seen"] = res.NDistinct("contexts")
	floor(res.Counters["long_chains"] >= 300, &reasons, "long chains %d", res.Counters["long_chains"])
	floor(res.Counters["both_parse_equal"] >= 1000, &reasons, "agreeing pairs %d", res.Counters["both_parse_equal"])
	floor(res.NDistinct("contexts") >= 60, &reasons, "left/right operand kind contexts %d < 60", res.NDistinct("contexts"))
	floor(res.Counters["jux_injected_observed"] >= res.Counters["jux_written"], &reasons, "hook saw %d injections for %d written juxtapositions", res.Counters["jux_injected_observed"], res.Counters["jux_written"])
	return reasons
}
