package props

import (
	"fmt"
	"math/rand"
	"strings"

	"github.com/grindlemire/go-lucene/verif/core"
	"github.com/grindlemire/go-lucene/verif/gen"
	"github.com/grindlemire/go-lucene/verif/mon"
	"github.com/grindlemire/go-lucene/verif/qt"
)

// C09: layout does not change meaning.
type c09 struct{}

func init() { core.Register(c09{}) }

func (c09) ID() string { return "C09" }

type c09Plan struct {
	seqs   []*gen.TokSeqs
	starts []int
	nSeq   int
	space  *qt.Space
	nTree  int
	nRand  int
	nLong  int
	stride int
}

func newC09Plan(tier string) *c09Plan {
	p := &c09Plan{}
	if tier == "thorough" {
		p.seqs = []*gen.TokSeqs{gen.NewTokSeqs(gen.Sigma, 5), gen.NewTokSeqs(gen.SigmaSmall, 6)}
		p.space = qt.NewSpace(qt.FullLeaves())
		p.nRand = 96
		p.nLong = 24
	} else {
		p.seqs = []*gen.TokSeqs{gen.NewTokSeqs(gen.Sigma, 4), gen.NewTokSeqs(gen.SigmaSmall, 5)}
		p.space = qt.NewSpace(qt.QuickLeaves())
		p.nRand = 8
		p.nLong = 3
	}
	b := 0
	for _, s := range p.seqs {
		p.starts = append(p.starts, b)
		b += nBatches(s.Size())
	}
	p.nSeq = b
	p.stride = 1
	if tier == "thorough" {
		p.stride = 8 // 1:8 sample of the large depth-2 space (every node of every tree is a variant)
	}
	p.nTree = nBatches(p.space.Size()) / p.stride
	return p
}

func (c09) Batches(tier string, seed int64) int {
	p := newC09Plan(tier)
	return p.nSeq + p.nTree + p.nRand + p.nLong
}

var symbolTok = map[string]bool{":": true, "=": true, ">": true, "<": true, "+": true, "~": true, "^": true, "(": true, ")": true, "[": true, "]": true, "{": true, "}": true}
var keywordTok = map[string]bool{"AND": true, "OR": true, "NOT": true, "TO": true}

// delimited: a quoted phrase or a regexp token, which ends at its own closing delimiter.
func delimited(t string) bool {
	return len(t) >= 2 && (t[0] == '"' || t[0] == '\'' || t[0] == '/') && t[len(t)-1] == t[0]
}

// adjacentOK reports whether two tokens stay two tokens when written with nothing between
// them: one of them is a symbol, or one of them is delimited (a word ends at a quote or a
// slash, and whatever follows a closing delimiter starts a new token). Never next to '-' (it
// would join a number or a word) and never after a token ending in a backslash.
func adjacentOK(l, t string) bool {
	if l == "-" || t == "-" || strings.HasSuffix(l, `\`) {
		return false
	}
	return symbolTok[l] || symbolTok[t] || delimited(l) || delimited(t)
}

func (p c09) RunBatch(ctx *core.Ctx, batch int) {
	mon.Install()
	defer monFlush(ctx)
	plan := newC09Plan(ctx.Tier)
	switch {
	case batch < plan.nSeq:
		k := len(plan.seqs) - 1
		for k > 0 && batch < plan.starts[k] {
			k--
		}
		s := plan.seqs[k]
		lo, hi := batchRange(s.Size(), batch-plan.starts[k])
		r := ctx.Rand("ws")
		for i := lo; i < hi; i++ {
			c09Tokens(ctx, s.Tokens(i), r)
		}
	case batch < plan.nSeq+plan.nTree:
		lo, hi := batchRange(plan.space.Size(), (batch-plan.nSeq)*plan.stride)
		r := ctx.Rand("parens")
		for i := lo; i < hi; i++ {
			c09Tree(ctx, plan.space.At(i).Clone(), r)
		}
	case batch >= plan.nSeq+plan.nTree+plan.nRand:
		c09Long(ctx, batch-(plan.nSeq+plan.nTree+plan.nRand))
	default:
		r := ctx.Rand("deep")
		leaves := append(append(qt.FullLeaves(), qt.ExtraLeaves()...), qt.HostileLeaves(r, gen.ValueDict(r, 80), 24, true)...)
		for i := 0; i < 800; i++ {
			t := qt.RandomTree(r, leaves, 2+r.Intn(4))
			if t.Size() > 30 {
				continue
			}
			c09Tree(ctx, t.Clone(), r)
			c09DeepParens(ctx, t.Clone(), r)
		}
	}
}

// c09DeepParens: many redundant pairs (3 … 128, around 23-25 and powers of two) around the whole
// query, around one operand of an explicit operator, and around one field value.
func c09DeepParens(ctx *core.Ctx, t *qt.Node, r *rand.Rand) {
	depths := gen.Sizes([]int{3, 8, 15, 16, 17, 22, 23, 24, 25, 31, 32, 33, 64, 128}, 3, 400)
	base := qt.Print(t, qt.Style{})
	n := depths[r.Intn(len(depths))]
	v := qt.Print(t, qt.Style{WrapAll: n})
	ctx.Case(v, func() { c09Same(ctx, "parens-deep", base, v, false) })
	var operands, values []*qt.Node
	t.Walk(func(x *qt.Node) {
		if !x.IsLeaf() && !(x.Kind == qt.KAnd && x.Implicit) {
			operands = append(operands, x.Kids...)
		}
		if x.Kind == qt.KField || x.Kind == qt.KCmp {
			values = append(values, x)
		}
	})
	if len(operands) > 0 {
		k := operands[r.Intn(len(operands))]
		n := depths[r.Intn(len(depths))]
		v := qt.Print(t, qt.Style{Extra: map[*qt.Node]int{k: n}})
		ctx.Case(v, func() { c09Same(ctx, "parens-deep", base, v, false) })
	}
	if len(values) > 0 {
		x := values[r.Intn(len(values))]
		n := depths[r.Intn(len(depths))]
		v := qt.Print(t, qt.Style{WrapValue: map[*qt.Node]int{x: n}})
		ctx.Case(v, func() { c09Same(ctx, "parens-deep", base, v, false) })
	}
	ctx.Max("deepest_redundant_parens", float64(n))
}

// c09Units are well-formed operands as token lists; chained they give long queries whose layout
// variants have very different byte lengths for the same tokens.
var c09Units = [][]string{
	{"a"}, {"+", "a"}, {"-", "a"}, {"(", "a", ")"}, {"(", "+", "a", ")"}, {"a", ":", "1"}, {"+", "a", ":", "1"}, {"-", "a", ":", "b"},
	{"a", ":", "b", "^", "2"}, {"a", "~"}, {"a", "~", "2"}, {"NOT", "a"}, {"f", ":", "[", "1", "TO", "5", "]"}, {"f", ":", "{", "a", "TO", "*", "}"},
	{"n", ":", ">", "=", "4"}, {"n", ":", "<", "4"}, {"x", ":", "(", "p", "OR", "q", ")"}, {`"q s"`}, {"f", ":", `"q"`}, {"/re/"}, {"f", ":", "/r e/"},
	{"(", "(", "a", ")", ")"}, {"+", "(", "a", "OR", "b", ")"}, {"w*"}, {"f", "=", "1"}, {"'x y'"}, {"f", ":", "'x'"},
}

// c09Long: chains of 1…400 units (one unit repeated, or a seeded mix; juxtaposed or joined by AND/OR)
// in three layouts: single spaces, no space next to a symbol, long whitespace runs.
func c09Long(ctx *core.Ctx, k int) {
	r := ctx.Rand("long")
	lens := gen.Sizes([]int{1, 2, 3, 4, 5, 6, 7, 8, 9, 10, 11, 12, 13, 14, 15, 16, 17, 18, 19, 20, 24, 31, 32, 33, 48, 64, 100, 200, 400}, 1, 1200)
	joins := [][]string{nil, {"AND"}, {"OR"}}
	emit := func(toks []string) {
		base := strings.Join(toks, " ")
		var b strings.Builder
		for i, t := range toks {
			if i > 0 {
				l := toks[i-1]
				if !adjacentOK(l, t) {
					b.WriteString(" ")
				}
			}
			b.WriteString(t)
		}
		compact := b.String()
		ctx.Case(compact, func() { c09Same(ctx, "whitespace-removed", base, compact, true) })
		ws := wsRun(r)
		b.Reset()
		for i, t := range toks {
			if i > 0 {
				for j := 1 + r.Intn(6); j > 0; j-- {
					b.WriteString(ws())
				}
			}
			b.WriteString(t)
		}
		padded := strings.Repeat(" ", r.Intn(300)) + b.String() + strings.Repeat("\n", r.Intn(300))
		ctx.Case(padded, func() { c09Same(ctx, "whitespace", base, padded, true) })
		ctx.Max("long_tokens", float64(len(toks)))
		ctx.Count("long_chains", 1)
	}
	if k == 0 {
		for _, t := range qt.RelationTrees() {
			c09Tree(ctx, t.Clone(), r)
		}
		// every leaf of the large and the rare alphabets, and values ending in a backslash, a
		// quote or a bracket character, alone and under NOT / AND / OR: all parenthesis placements
		edge := []*qt.Node{qt.T(qt.Phrase(`a\`)), qt.F("f", qt.Phrase(`C:\dir\`)), qt.T(qt.Phrase(`\`)), qt.F("f", qt.Phrase(`x\\`)), qt.T(qt.Phrase("(")), qt.T(qt.Phrase(")")), qt.F("f", qt.Phrase("a)")), qt.F("f", qt.Phrase("(a")),
			qt.T(qt.Phrase("'")), qt.F("f", qt.Phrase("it's")), qt.T(qt.Regexp(`/a\)/`)), qt.T(qt.Regexp(`/(/`)), qt.F("f", qt.Regexp(`/\\/`)), qt.T(qt.Escaped("a)")), qt.T(qt.Escaped("(a")), qt.F("f", qt.Escaped(`a\`))}
		z := qt.T(qt.Word("z"))
		for _, l := range append(append(qt.FullLeaves(), qt.ExtraLeaves()...), edge...) {
			for _, t := range []*qt.Node{l.Clone(), qt.Not(l.Clone()), qt.And(l.Clone(), z.Clone()), qt.Or(z.Clone(), l.Clone()), qt.And(qt.Not(l.Clone()), qt.Or(z.Clone(), l.Clone()))} {
				c09Tree(ctx, t, r)
			}
			ctx.Count("leaf_alphabet_trees", 5)
		}
		// a symbol written directly behind a word that looks like the beginning of something
		// longer (an exponent, a hex prefix, a dotted or dashed word) must still be its own token
		words := []string{"1e", "2.5E", "10e", "1E", "5e", "1e5", "0x", "0x1p", "007", "1.", "a.b", "x-y", "a.", "x-", "1_000", "\u00e9", "\u0131", "NaN", "inf", "w*", "q?", "to", "or"}
		syms := []string{"+", ":", "=", ">", "<", "~", "^", "(", ")", "[", "]", "{", "}"}
		for _, w := range words {
			for _, sy := range syms {
				for _, nx := range []string{"5", "a", "2.5", "x1"} {
					emit([]string{w, sy, nx})
					emit([]string{"f", ":", w, sy, nx})
					emit([]string{"a", "OR", w, sy, nx, "b"})
				}
			}
		}
		// the last token of the input with and without anything behind it
		for _, w := range []string{"-3d", "-5th", "-2024-01-01", "-3", "-x", "1e", "a.", "x-", "w*", "q?", "\"p q\"", "/re/", "'s'", "5", "1.5", "NOT", "a~", "a^", "a~2"} {
			for _, pre := range [][]string{{}, {"a"}, {"a", "AND"}, {"f", ":"}, {"(", "a"}} {
				base := strings.Join(append(append([]string{}, pre...), w), " ")
				for _, tail := range []string{" ", "\n", "\t", "\r\n", "  "} {
					v := base + tail
					ctx.Case(v, func() { c09Same(ctx, "whitespace", base, v, true) })
				}
			}
		}
		for _, u := range c09Units {
			for _, j := range joins {
				for _, n := range lens {
					toks := []string{}
					for i := 0; i < n; i++ {
						if i > 0 {
							toks = append(toks, j...)
						}
						toks = append(toks, u...)
					}
					emit(toks)
				}
			}
		}
		return
	}
	for c := 0; c < 600; c++ {
		n := lens[r.Intn(len(lens))]
		toks := []string{}
		for i := 0; i < n; i++ {
			if i > 0 {
				toks = append(toks, joins[r.Intn(len(joins))]...)
			}
			toks = append(toks, c09Units[r.Intn(len(c09Units))]...)
		}
		emit(toks)
	}
}

// c09Same compares the outcome of a base text and a variant. iff: the variant must also fail
// when the base fails.
func c09Same(ctx *core.Ctx, kind, base, variant string, iff bool) {
	c09SameDF(ctx, kind, base, variant, iff, "")
	// layout must not matter under a default field either (sampled for the token sequences,
	// always for the tree variants)
	if strings.HasPrefix(kind, "parens") || ctx.Index()%4 == 0 {
		c09SameDF(ctx, kind+"+default-field", base, variant, iff, "dfl")
	}
}

func c09SameDF(ctx *core.Ctx, kind, base, variant string, iff bool, df string) {
	be, berr, ok1 := parse(ctx, base, df)
	ve, verr, ok2 := parse(ctx, variant, df)
	if !ok1 || !ok2 {
		return
	}
	ctx.Count("variants_"+kind, 1)
	switch {
	case berr == nil && verr != nil:
		ctx.Violate("c09:"+kind+":variant-rejected", "base %q parses but the %s variant %q fails: %v", base, kind, variant, verr)
	case berr == nil && !deepEqual(be, ve):
		ctx.Violate("c09:"+kind+":trees-differ", "base %q\n  gives %s\n%s variant %q\n  gives %s", base, gostr(be), kind, variant, gostr(ve))
	case berr != nil && verr == nil && iff:
		ctx.Violate("c09:"+kind+":variant-accepted", "base %q fails (%v) but the %s variant %q parses to %s", base, berr, kind, variant, gostr(ve))
	case berr == nil:
		ctx.Count("accept_accept", 1)
		ctx.Distinct("nontrivial", base+"\x00"+variant)
	default:
		if verr != nil {
			ctx.Count("reject_reject", 1)
		}
	}
}

func c09Tokens(ctx *core.Ctx, toks []string, r *rand.Rand) {
	base := strings.Join(toks, " ")
	ws := wsRun(r)
	// 1. every separator replaced by a whitespace run, plus leading/trailing runs
	var b strings.Builder
	if r.Intn(2) == 0 {
		b.WriteString(ws())
	}
	for i, t := range toks {
		if i > 0 {
			b.WriteString(ws())
		}
		b.WriteString(t)
	}
	if r.Intn(2) == 0 {
		b.WriteString(ws())
	}
	v1 := b.String()
	ctx.Case(v1, func() { c09Same(ctx, "whitespace", base, v1, true) })
	// 2. fixed fillings: tabs, newlines
	for _, sep := range []string{"\t", "\n", "\r\n", "   "} {
		v := sep + strings.Join(toks, sep) + sep
		ctx.Case(v, func() { c09Same(ctx, "whitespace", base, v, true) })
	}
	// 3. separators removed next to a symbol token or a quoted / regexp token (never next to '-', which would merge)
	b.Reset()
	removed := false
	for i, t := range toks {
		if i > 0 {
			l := toks[i-1]
			if adjacentOK(l, t) {
				removed = true
			} else {
				b.WriteString(" ")
			}
		}
		b.WriteString(t)
	}
	if removed {
		v := b.String()
		ctx.Case(v, func() { c09Same(ctx, "whitespace-removed", base, v, true) })
	}
	// 4. keyword case: every subset of the keyword tokens in lower case, plus one mixed spelling
	kws := []int{}
	for i, t := range toks {
		if keywordTok[t] {
			kws = append(kws, i)
		}
	}
	if len(kws) > 0 {
		for m := 1; m < 1<<uint(len(kws)); m++ {
			vt := append([]string{}, toks...)
			for j, idx := range kws {
				if m&(1<<uint(j)) != 0 {
					vt[idx] = strings.ToLower(vt[idx])
				}
			}
			v := strings.Join(vt, " ")
			ctx.Case(v, func() { c09Same(ctx, "keyword-case", base, v, true) })
		}
		vt := append([]string{}, toks...)
		kc := kwCase(r)
		for _, idx := range kws {
			vt[idx] = kc(vt[idx])
		}
		v := strings.Join(vt, " ")
		ctx.Case(v, func() { c09Same(ctx, "keyword-case", base, v, true) })
		// every one of the 2^len letter-case spellings of each keyword, one keyword at a time
		for _, idx := range kws {
			kw := toks[idx]
			for m := 1; m < 1<<uint(len(kw)); m++ {
				b := []byte(kw)
				for i := range b {
					if m&(1<<uint(i)) != 0 {
						b[i] = b[i] - 'A' + 'a'
					}
				}
				vt := append([]string{}, toks...)
				vt[idx] = string(b)
				v := strings.Join(vt, " ")
				ctx.Case(v, func() { c09Same(ctx, "keyword-case", base, v, true) })
			}
		}
	}
}

// c09Tree checks every single redundant-parenthesis placement of a printed tree, on an
// all-explicit base and on a base with juxtapositions.
func c09Tree(ctx *core.Ctx, t *qt.Node, r *rand.Rand) {
	ands := qt.AndNodes(t)
	bases := 1
	if len(ands) > 0 {
		bases = 2
	}
	for bi := 0; bi < bases; bi++ {
		for _, a := range ands {
			a.Implicit = false
		}
		if bi == 1 {
			any := false
			for _, a := range ands {
				if qt.JuxEligible(a, qt.Style{}) && r.Intn(3) > 0 {
					a.Implicit = true
					any = true
				}
			}
			if !any {
				continue
			}
		}
		base := qt.Print(t, qt.Style{})
		// whole query
		n := 1 + r.Intn(2)
		v := qt.Print(t, qt.Style{WrapAll: n})
		ctx.Case(v, func() { c09Same(ctx, "parens-whole", base, v, false) })
		// operands of explicitly written operators, and field values
		t.Walk(func(x *qt.Node) {
			explicit := !x.IsLeaf() && !(x.Kind == qt.KAnd && x.Implicit)
			if explicit {
				for _, k := range x.Kids {
					v := qt.Print(t, qt.Style{Extra: map[*qt.Node]int{k: 1}})
					ctx.Case(v, func() { c09Same(ctx, "parens-operand", base, v, false) })
					ctx.Distinct("operand_contexts", fmt.Sprintf("%s>%s", x.Kind, k.Kind))
				}
			}
			if (x.Kind == qt.KFuzzy || x.Kind == qt.KBoost) && x.HasArg {
				// the amount is the right operand of the explicitly written ~ / ^
				v := qt.Print(t, qt.Style{WrapArg: map[*qt.Node]int{x: 1 + r.Intn(2)}})
				ctx.Case(v, func() { c09Same(ctx, "parens-amount", base, v, false) })
			}
			if x.Kind == qt.KField || x.Kind == qt.KCmp {
				v := qt.Print(t, qt.Style{WrapValue: map[*qt.Node]int{x: 1}})
				ctx.Case(v, func() { c09Same(ctx, "parens-value", base, v, false) })
			}
		})
		if ctx.Index()%2003 == 0 {
			ctx.Sample("tree-base", base)
		}
	}
	for _, a := range ands {
		a.Implicit = false
	}
}

func (c09) Finish(res *core.Result, cov map[string]any) []string {
	reasons := []string{}
	cov["distinct_nontrivial"] = res.NDistinct("nontrivial")
	cov["exhaustive"] = true
	cov["rule"] = "token sequences up to length L (exhaustive) with every separator re-filled by space/tab/CR/LF runs, leading/trailing runs, separators removed next to symbol tokens, and every lower-case subset of their keywords (both directions of the iff); every depth<=2 tree (exhaustive over the leaf alphabet), with and without juxtapositions, under every single redundant-parenthesis placement the statement names (whole query, operand of an explicit operator, field value), and 3…128 redundant pairs in each of those places on random deeper trees; chains of 1…400 operands (25 unit shapes, repeated or mixed, juxtaposed / AND / OR) in three layouts (single spaces, no space next to a symbol, long whitespace runs with leading/trailing runs). Non-trivial = distinct (base, variant) pair whose base parses."
	for _, k := range []string{"variants_whitespace", "variants_whitespace-removed", "variants_keyword-case", "variants_parens-whole", "variants_parens-operand", "variants_parens-value", "variants_parens-amount", "variants_parens-deep"} {
		floor(res.Counters[k] >= 500, &reasons, "%s = %d", k, res.Counters[k])
	}
	floor(res.Counters["long_chains"] >= 1000, &reasons, "long chains %d", res.Counters["long_chains"])
	cov["longest_chain_tokens"] = res.MaxF["long_tokens"]
	floor(res.Counters["accept_accept"] >= 1000 && res.Counters["reject_reject"] >= 1000, &reasons, "accept/accept %d reject/reject %d", res.Counters["accept_accept"], res.Counters["reject_reject"])
	return reasons
}
