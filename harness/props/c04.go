package props

import (
	"fmt"
	"math/rand"
	"reflect"
	"strings"

	lucene "github.com/grindlemire/go-lucene"
	"github.com/grindlemire/go-lucene/verif/core"
	"github.com/grindlemire/go-lucene/verif/gen"
	"github.com/grindlemire/go-lucene/verif/mon"
	"github.com/grindlemire/go-lucene/verif/oracle"
	"github.com/grindlemire/go-lucene/verif/qt"
)

// C04: parameterized SQL agrees with inline SQL; all values travel as parameters.
type c04 struct{}

func init() { core.Register(c04{}) }

func (c04) ID() string { return "C04" }

// c04Leaves: every renderable leaf form, including bare terms and regular expressions.
func c04Leaves(full bool) []*qt.Node {
	ls := []*qt.Node{
		qt.T(qt.Word("a")), qt.T(qt.Int(5)), qt.F("f", qt.Word("b")), qt.F("f", qt.Wild("x*")), qt.F("f", qt.Regexp("/re/")),
		qt.Cmp("n", ">=", qt.Int(4)), qt.Range("n", qt.Int(1), qt.Int(5), true), qt.Range("s", qt.Word("aa"), qt.Open(), false), qt.List("s", qt.Word("x"), qt.Int(2)),
		qt.FV(qt.Int(5), qt.Wild("c*")),
	}
	if full {
		ls = append(ls,
			qt.T(qt.Float("1.5")), qt.T(qt.Phrase("q s")), qt.T(qt.Wild("w?")), qt.T(qt.Regexp("/r+/")), qt.T(qt.Int(-3)),
			qt.F("f", qt.Int(-2)), qt.F("f", qt.Float("2.5")), qt.F("f", qt.Phrase("it's")), qt.F("f", qt.Wild("*")), qt.F("f", qt.Wild("?")), qt.F("f", qt.Regexp("/b/")), qt.F("f", qt.Regexp("//")),
			qt.F("f", qt.Phrase("*")), qt.F("f", qt.Phrase("")), qt.F("f", qt.Escaped("a*b")),
			qt.Cmp("n", "<", qt.Float("0.5")), qt.Cmp("s", ">", qt.Phrase("m m")), qt.Cmp("n", "<=", qt.Int(-4)),
			qt.Range("n", qt.Int(1), qt.Int(5), false), qt.Range("n", qt.Open(), qt.Int(5), true), qt.Range("n", qt.Int(2), qt.Open(), false),
			qt.Range("n", qt.Float("1.5"), qt.Float("2.5"), true), qt.Range("n", qt.Float("0.001"), qt.Open(), true), qt.Range("n", qt.Open(), qt.Float("2.25"), false),
			qt.Range("n", qt.Int(1), qt.Float("2.5"), true), qt.Range("n", qt.Int(1), qt.Float("2.5"), false), qt.Range("n", qt.Float("0.5"), qt.Int(3), false), qt.Range("n", qt.Float("0.5"), qt.Int(3), true),
			qt.F("f", qt.IntText("010")), qt.Range("n", qt.IntText("010"), qt.IntText("020"), false), qt.Range("s", qt.Word("aa"), qt.Word("zz"), true), qt.Range("s", qt.Phrase("x,y"), qt.Phrase("z z"), false),
			qt.Range("s", qt.Open(), qt.Word("mm"), true), qt.Range("n", qt.Open(), qt.Open(), true),
			qt.List("n", qt.Int(1), qt.Float("2.5"), qt.Phrase("z z")), qt.List("s", qt.Phrase("a,b"), qt.Phrase("it's")),
			qt.F("f", qt.Wild(`b\*c*`)), qt.F("f", qt.Wild(`b\?c?`)), qt.F("f", qt.Wild(`\**`)), qt.F("f", qt.Wild(`a\ b*`)), qt.T(qt.Wild(`b\*c*`)),
			qt.List("s", qt.Word("p"), qt.Word("q"), qt.Int(3), qt.Phrase("r s")), qt.List("n", qt.Int(1), qt.Int(2), qt.Int(3), qt.Float("4.5"), qt.Int(5)),
			qt.FV(qt.Int(5), qt.Wild("c*")), qt.FV(qt.Float("1.5"), qt.Wild("c?d")), qt.FV(qt.Int(-7), qt.Word("x")), qt.FV(qt.Int(5), qt.Regexp("/c*/")),
			qt.F("f", qt.Regexp(`/C:\\/`)), qt.List("s", qt.Word("x"), qt.Word("x"), qt.Word("y")), qt.Range("n", qt.Int(5), qt.Int(5), true),
			&qt.Node{Kind: qt.KCmp, Field: qt.Int(3), Cmp: ">", Val: qt.Int(2)}, &qt.Node{Kind: qt.KRange, Field: qt.Int(9), Lo: qt.Int(1), Hi: qt.Int(5), Incl: true},
		)
	}
	return ls
}

type c04Plan struct {
	space *qt.Space
	nTree int
	nDeep int
	step  int
}

func newC04Plan(tier string) *c04Plan {
	p := &c04Plan{step: 1}
	if tier == "thorough" {
		p.space = qt.NewSpace(c04Leaves(true))
		p.step = 24
		p.nDeep = 200
	} else {
		p.space = qt.NewSpace(c04Leaves(false))
		p.step = 2
		p.nDeep = 10
	}
	p.nTree = nBatches(p.space.Size()) / p.step
	return p
}

func (c04) Batches(tier string, seed int64) int {
	p := newC04Plan(tier)
	return 3 + p.nTree + p.nDeep
}

func (c04) RunBatch(ctx *core.Ctx, batch int) {
	mon.Install()
	p := newC04Plan(ctx.Tier)
	switch {
	case batch == 0:
		// every leaf form alone, deterministic, many substitutions
		for _, l := range c04Leaves(true) {
			c04Tree(ctx, l, 12, true)
		}
		// numbers at the edges of float32 / int32 / float64 / int64 precision in every numeric
		// position: the parameter carries the exact value, so must the inline text
		big := []qt.Value{qt.Int(16777217), qt.Int(4294967297), qt.Int(9007199254740993), qt.Int(9007199254740995), qt.Int(-9007199254740993), qt.Int(1234567890123456789), qt.Int(9223372036854775807), qt.Int(-9223372036854775808),
			qt.Float("9.5e18"), qt.Float("9007199254740993.0"), qt.Float("16777217.5"), qt.Float("1234.56789"), qt.Float("100000.00001"), qt.Float("9223372036854775808")}
		for i, v := range big {
			w := big[(i+1)%len(big)]
			for _, t := range []*qt.Node{qt.F("n", v), qt.T(v), qt.Cmp("n", ">", v), qt.Cmp("n", "<=", v), qt.Range("n", v, qt.Open(), true), qt.Range("n", qt.Open(), v, false),
				qt.Range("n", qt.Int(1), v, true), qt.Range("n", v, w, false), qt.Range("n", qt.Float("0.5"), v, true), qt.List("n", v, qt.Int(1), w), qt.And(qt.F("x", qt.Word("y")), qt.Not(qt.Range("n", v, qt.Int(5), false)))} {
				c04Tree(ctx, t, 0, true)
				ctx.Count("edge_number_trees", 1)
			}
		}
		// value lists of up to 70000 members: as many parameters as values, whatever their number
		for _, n := range gen.Sizes([]int{255, 256, 257, 32767, 32768, 32769, 65535, 65536, 65537}, 200, 70000) {
			vals := make([]qt.Value, n)
			for i := range vals {
				vals[i] = qt.Int(i)
			}
			vals[n/2] = qt.Phrase("x y")
			c04Tree(ctx, qt.List("n", vals...), 0, true)
			ctx.Count("big_lists", 1)
		}
		for _, t := range qt.RelationTrees() {
			c04Tree(ctx, t, 1, false)
			ctx.Count("relation_trees", 1)
		}
		// the quoted star as a range bound (a class of its own, see KNOWN_FINDINGS)
		for _, t := range []*qt.Node{qt.Range("s", qt.Phrase("*"), qt.Word("zz"), true), qt.Range("s", qt.Word("aa"), qt.Phrase("*"), false), qt.Range("n", qt.Phrase("*"), qt.Int(5), true)} {
			c04Tree(ctx, t, 0, true)
		}
	case batch == 1+p.nTree+p.nDeep:
		// hostile strings as values in every value position (quoted, and escaped when eligible)
		for _, h := range gen.ValueDict(ctx.Rand("values"), 150) {
			if strings.Contains(h, `"`) {
				continue
			}
			vals := []qt.Value{qt.Phrase(h)}
			if h != "" && !isNumericText(h) && !isKeyword(h) {
				vals = append(vals, qt.Escaped(h))
			}
			for _, v := range vals {
				for _, t := range []*qt.Node{qt.F("f", v), qt.T(v), qt.Cmp("f", "<=", v), qt.List("f", v, qt.Word("zz")), qt.List("f", qt.Word("aa"), v, qt.Int(3)),
					qt.Range("f", v, qt.Word("zz"), true), qt.Range("f", qt.Word("aa"), v, false), qt.And(qt.Not(qt.F("f", v)), qt.F("g", qt.Wild("w*")))} {
					if v.S == "*" && t.Kind == qt.KRange {
						continue // the quoted star as a range bound is the deterministic class of batch 0
					}
					c04Tree(ctx, t, 0, true)
				}
			}
		}
	case batch == 2+p.nTree+p.nDeep:
		// hostile strings as field names (quoted, and escaped when eligible) under every leaf kind:
		// whenever the inline renderer accepts the column, the parameterised one must too
		r := ctx.Rand("fields")
		for _, h := range gen.ValueDict(r, 250) {
			if strings.Contains(h, `"`) {
				continue
			}
			fs := []qt.Value{qt.Phrase(h)}
			if h != "" && !isNumericText(h) && !isKeyword(h) {
				fs = append(fs, qt.Escaped(h))
			}
			for _, f := range fs {
				for _, t := range []*qt.Node{qt.F("f", qt.Word("v")), qt.F("f", qt.Int(7)), qt.F("f", qt.Wild("w*?")), qt.Cmp("f", ">=", qt.Int(4)), qt.Cmp("f", "<", qt.Float("1.5")),
					qt.Range("f", qt.Int(1), qt.Int(5), true), qt.Range("f", qt.Int(10), qt.Int(90), false), qt.Range("f", qt.Open(), qt.Float("2.5"), true), qt.Range("f", qt.Int(-3), qt.Open(), false),
					qt.Range("f", qt.Word("aa"), qt.Word("bb"), true), qt.List("f", qt.Word("x"), qt.Word("y")), qt.List("f", qt.Int(1), qt.Int(2), qt.Int(3))} {
					t.Field = f
					c04Tree(ctx, qt.And(t, qt.Not(qt.F("g", qt.Word("z")))), 0, true)
					ctx.Count("hostile_field_trees", 1)
				}
			}
		}
	case batch < 1+p.nTree:
		lo, hi := batchRange(p.space.Size(), (batch-1)*p.step)
		for i := lo; i < hi; i++ {
			c04Tree(ctx, p.space.At(i), 2, false)
		}
	default:
		r := ctx.Rand("deep")
		leaves := c04Leaves(true)
		for i := 0; i < 500; i++ {
			t := qt.RandomTree(r, leaves, 2+r.Intn(4))
			if t.Size() > 40 {
				continue
			}
			c04Tree(ctx, t, 3, false)
		}
	}
}

// valueSlots returns pointers to the value positions of a tree in left-to-right order
// (unbounded range ends are not values) and a description of each position.
func valueSlots(n *qt.Node) (slots []*qt.Value, where []string) {
	// a single term in parentheses behind a field is that field's value (f:(w*) is f:w*)
	groupValue := map[*qt.Node]bool{}
	n.Walk(func(x *qt.Node) {
		if x.Kind == qt.KGroup && x.Kids[0].Kind == qt.KTerm {
			groupValue[x.Kids[0]] = true
		}
	})
	n.Walk(func(x *qt.Node) {
		if x.Kind >= qt.KField && x.Kind <= qt.KList && x.Field.IsNum() {
			// a number in field position is not a column: it is rendered as a value
			slots, where = append(slots, &x.Field), append(where, "numeric-field")
		}
		switch x.Kind {
		case qt.KTerm:
			if groupValue[x] {
				slots, where = append(slots, &x.Val), append(where, "field-value")
			} else {
				slots, where = append(slots, &x.Val), append(where, "term")
			}
		case qt.KField:
			slots, where = append(slots, &x.Val), append(where, "field-value")
		case qt.KCmp:
			slots, where = append(slots, &x.Val), append(where, "comparison")
		case qt.KRange:
			if x.Lo.Kind != qt.VOpen {
				slots, where = append(slots, &x.Lo), append(where, "range-bound")
			}
			if x.Hi.Kind != qt.VOpen {
				slots, where = append(slots, &x.Hi), append(where, "range-bound")
			}
		case qt.KList:
			for i := range x.Vals {
				slots, where = append(slots, &x.Vals[i]), append(where, "list-member")
			}
		}
	})
	return
}

func hasFuzzyBoost(n *qt.Node) bool {
	f := false
	n.Walk(func(x *qt.Node) {
		if x.Kind == qt.KFuzzy || x.Kind == qt.KBoost {
			f = true
		}
	})
	return f
}

// sameKindValue draws another value of the same kind.
func sameKindValue(r *rand.Rand, v qt.Value, where string) (qt.Value, string) {
	switch v.Kind {
	case qt.VInt:
		return qt.Int([]int{0, 1, -1, 7, 12345, -99, 2147483648, 1000000}[r.Intn(8)]), "int"
	case qt.VFloat:
		// whole-valued floats included: 2.0 is a float64 parameter, not an int
		return qt.Float([]string{"0.5", "-2.75", "3.14159", "0.001", "1234.5678", "1e-7", "2.5e21", "2.0", "3.00", "-7.0", "100.0", "1e3", "0.0"}[r.Intn(13)]), "float"
	case qt.VWild:
		return qt.Wild([]string{"*", "?", "a*", "*b", "x?y", "ab*cd?", "q??", `b\*c*`, `x\?y?`, "?*", "a*?"}[r.Intn(11)]), "pattern"
	case qt.VRegexp:
		return qt.Regexp([]string{"/b/", "//", "/x.*y/", "/[a-z]+/", "/a b/"}[r.Intn(5)]), "regexp"
	}
	strs := []string{"x", "yy", "abc", "foo bar", "it's", "a,b", "100%", "a_b", "", "?", "AND", "5", "x*y"}
	if where != "range-bound" {
		// the quoted star as a range bound is a separate, deterministic class
		strs = append(strs, "*")
	}
	return qt.Phrase(strs[r.Intn(len(strs))]), "string"
}

func renderBoth(ctx *core.Ctx, text, df string) (sql string, serr error, psql string, params []any, perr error, ok bool) {
	ok = ctx.Call("ToPostgres", func() {
		if df != "" {
			sql, serr = lucene.ToPostgres(text, lucene.WithDefaultField(df))
		} else {
			sql, serr = lucene.ToPostgres(text)
		}
	})
	if !ok {
		return
	}
	ok = ctx.Call("ToParameterizedPostgres", func() {
		if df != "" {
			psql, params, perr = lucene.ToParameterizedPostgres(text, lucene.WithDefaultField(df))
		} else {
			psql, params, perr = lucene.ToParameterizedPostgres(text)
		}
	})
	return
}

func c04Tree(ctx *core.Ctx, t0 *qt.Node, subs int, leafOnly bool) {
	if hasFuzzyBoost(t0) {
		return
	}
	t := t0.Clone()
	text := qt.Print(t, qt.Style{})
	dfs := []string{""}
	if !leafOnly || t.Kind == qt.KTerm {
		dfs = append(dfs, "dfl")
	}
	for _, df := range dfs {
		df := df
		ctx.Case(text, func() { c04Check(ctx, t, text, df, subs) })
	}
}

func quotedStarBound(t *qt.Node) bool {
	q := false
	t.Walk(func(x *qt.Node) {
		if x.Kind == qt.KRange && ((x.Lo.Kind != qt.VOpen && x.Lo.S == "*") || (x.Hi.Kind != qt.VOpen && x.Hi.S == "*")) {
			q = true
		}
	})
	return q
}

// numericFieldClosedRange: a number in field position of a range with two numeric bounds (the
// field is then a value and is rendered once per comparison).
func numericFieldClosedRange(t *qt.Node) bool {
	q := false
	t.Walk(func(x *qt.Node) {
		if x.Kind == qt.KRange && x.Field.IsNum() && x.Lo.IsNum() && x.Hi.IsNum() {
			q = true
		}
	})
	return q
}

func c04Check(ctx *core.Ctx, t *qt.Node, text, df string, subs int) {
	_ = t.Skeleton
	class := "tree"
	if quotedStarBound(t) {
		class = "quoted-star-range-bound"
	}
	if numericFieldClosedRange(t) {
		class = "numeric-field-closed-range"
	}
	sql, serr, psql, params, perr, ok := renderBoth(ctx, text, df)
	if !ok {
		return
	}
	ctx.Count("pairs", 1)
	if serr != nil {
		ctx.Count("inline_fails", 1)
		return
	}
	if perr != nil {
		ctx.Violate("c04:param-fails:"+class, "ToPostgres(%q) gives %q but ToParameterizedPostgres fails: %v", text, sql, perr)
		return
	}
	// (b) placeholders
	rep, nPlace := oracle.ReplacePlaceholders(psql)
	ctx.Count(fmt.Sprintf("placeholders_%02d", minInt(nPlace, 12)), 1)
	if nPlace != len(params) {
		ctx.Violate("c04:placeholder-count:"+class, "%q renders %q with %d placeholders but %d parameters %#v", text, psql, nPlace, len(params), params)
		return
	}
	// (c) the parameters are the query's values, in order, with their kinds
	slots, where := valueSlots(t)
	want := []any{}
	for i, s := range slots {
		if where[i] == "term" && s.Kind == qt.VWild && df == "" {
			// a bare wildcard term is not a pattern match (there is no field to match):
			// inline and parameterized both carry its text unchanged
			want = append(want, s.S)
			continue
		}
		want = append(want, s.Go())
	}
	if !reflect.DeepEqual(params, want) && !(len(params) == 0 && len(want) == 0) {
		at, kind := "count", fmt.Sprintf("%d-vs-%d", len(params), len(want))
		for i := range want {
			if i >= len(params) || !reflect.DeepEqual(params[i], want[i]) {
				at, kind = where[i], fmt.Sprintf("%T", want[i])
				break
			}
		}
		ctx.Violate("c04:params:"+class+":"+at+":"+kind, "%q renders %q with parameters %#v, the query's values are %#v", text, psql, params, want)
		return
	}
	// (d) equivalent to the inline SQL
	inl := oracle.PgRead(sql)
	par := oracle.PgRead(rep)
	if inl.Skipped != "" || par.Skipped != "" {
		ctx.Count("pg_skipped", 1)
		return
	}
	if inl.Reject != "" || par.Reject != "" {
		ctx.Violate("c04:not-sql:"+class, "%q: inline %q (%s) / parameterized %q (%s)", text, sql, inl.Reject, psql, par.Reject)
		return
	}
	sub, ok2 := par.IR.Subst(params)
	if !ok2 {
		ctx.Violate("c04:substitution-impossible:"+class, "%q: parameterized %q refers to a parameter outside %#v or of an unexpected kind", text, psql, params)
		return
	}
	if sub.Equal(inl.IR) {
		ctx.Count("equivalent_structurally", 1)
	} else {
		// not the same shape: decide on probe rows
		fields := oracle.CollectFields(t)
		if df != "" {
			if _, ok := fields[df]; !ok {
				fields[df] = &oracle.FieldInfo{}
			}
		}
		rows := oracle.ProbeRows(fields, ctx.Rand("rows"+text), 256)
		diff := false
		for i, row := range rows {
			a, e1 := oracle.SqlEval(inl.IR, row, oracle.RowOpaque(i))
			b, e2 := oracle.SqlEval(sub, row, oracle.RowOpaque(i))
			if (e1 == nil) != (e2 == nil) || (e1 == nil && a != b) {
				ctx.Violate("c04:not-equivalent:"+class, "%q: inline %q and parameterized %q with %#v differ on the row %v (%v/%v vs %v/%v)", text, sql, psql, params, row, a, e1, b, e2)
				diff = true
				break
			}
		}
		if diff {
			return
		}
		ctx.Count("equivalent_on_rows", 1)
	}
	if len(params) > 0 {
		ctx.Distinct("nontrivial", irSkeleton(par.IR))
	}
	ctx.Distinct("sql_texts", psql)
	// (e) the SQL text does not depend on the values
	r := ctx.Rand("subst" + text)
	for i, slot := range slots {
		orig := *slot
		for k := 0; k < subs; k++ {
			nv, kind := sameKindValue(r, orig, where[i])
			*slot = nv
			text2 := qt.Print(t, qt.Style{})
			_, serr2, psql2, params2, perr2, ok := renderBoth(ctx, text2, df)
			*slot = orig
			if !ok {
				return
			}
			ctx.Count("substitutions_"+kind, 1)
			if serr2 != nil || perr2 != nil {
				ctx.Violate("c04:substitution-fails:"+kind+":"+where[i], "%q renders but after replacing the %s value %s by %s (%q) rendering fails: %v / %v", text, where[i], orig.Text, nv.Text, text2, serr2, perr2)
				return
			}
			if psql2 != psql {
				ctx.Violate("c04:sql-depends-on-value:"+kind+":"+where[i], "replacing the %s value %s by %s changes the SQL text: %q -> %q", where[i], orig.Text, nv.Text, psql, psql2)
				return
			}
			want2 := append([]any{}, want...)
			want2[i] = nv.Go()
			if where[i] == "term" && nv.Kind == qt.VWild && df == "" {
				want2[i] = nv.S
			}
			if !reflect.DeepEqual(params2, want2) {
				ctx.Violate("c04:substituted-params:"+kind+":"+where[i], "after replacing the %s value %s by %s the parameters are %#v, want %#v", where[i], orig.Text, nv.Text, params2, want2)
				return
			}
		}
	}
	if ctx.Index()%997 == 0 {
		ctx.Sample("pair", fmt.Sprintf("%s   =>   %s   |   %s %#v", text, sql, psql, params))
	}
}

func (c04) Finish(res *core.Result, cov map[string]any) []string {
	reasons := []string{}
	cov["distinct_nontrivial"] = res.NDistinct("nontrivial")
	cov["distinct_sql_texts"] = res.NDistinct("sql_texts")
	cov["exhaustive"] = true
	cov["rule"] = "every leaf form alone and every depth<=2 tree over the leaf alphabet (sampled 1:2 quick / 1:24 over the large alphabet thorough) plus random deeper trees, hostile and generated strings in every value position and as field names (quoted / escaped) under every leaf kind, with and without a default field: ToParameterizedPostgres must succeed when ToPostgres does; placeholders outside quotes = parameters; parameters = the generator's in-order values with Go kinds (patterns translated, open ends absent); the parameterized SQL with the parameters substituted must be the same predicate as the inline SQL (structural equality of what PostgreSQL reads, else agreement on probe rows); replacing each value by others of the same kind must leave the SQL text byte-identical and change only that parameter. Non-trivial = distinct parameterized SQL skeleton with >= 1 parameter."
	floor(res.Counters["pairs"] >= 2000, &reasons, "pairs %d", res.Counters["pairs"])
	for _, k := range []string{"int", "float", "string", "pattern", "regexp"} {
		floor(res.Counters["substitutions_"+k] >= 50, &reasons, "substitutions of kind %s: %d", k, res.Counters["substitutions_"+k])
	}
	floor(res.Counters["equivalent_structurally"]+res.Counters["equivalent_on_rows"] >= 1000, &reasons, "equivalences decided %d", res.Counters["equivalent_structurally"]+res.Counters["equivalent_on_rows"])
	return reasons
}
