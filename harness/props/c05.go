package props

import (
	"fmt"

	"github.com/grindlemire/go-lucene/verif/core"
	"github.com/grindlemire/go-lucene/verif/gen"
	"github.com/grindlemire/go-lucene/verif/mon"
	"github.com/grindlemire/go-lucene/verif/oracle"
	"github.com/grindlemire/go-lucene/verif/qt"
)

// C05: precedence, associativity and grouping follow the documented table.
type c05 struct{}

func init() { core.Register(c05{}) }

func (c05) ID() string { return "C05" }

func c05Space(tier string) *qt.Space {
	if tier == "thorough" {
		return qt.NewSpace(qt.FullLeaves())
	}
	return qt.NewSpace(qt.QuickLeaves())
}

const c05RandomBatchesQuick = 8
const c05RandomBatchesThorough = 64

var c05Extra = qt.NewSpace(qt.ExtraLeaves())

// c05ExtraSize: the quick tier enumerates the rarer spellings up to depth 1, the thorough tier up to depth 2.
func c05ExtraSize(tier string) int {
	if tier == "thorough" {
		return c05Extra.Size()
	}
	return len(c05Extra.D1)
}

func (c05) Batches(tier string, seed int64) int {
	n := nBatches(c05Space(tier).Size()) + nBatches(c05ExtraSize(tier))
	if tier == "thorough" {
		return n + c05RandomBatchesThorough + 1
	}
	return n + c05RandomBatchesQuick + 1
}

// the statement's own examples
var c05Named = []struct {
	text string
	tree *qt.Node
}{
	{"a:b OR c:d AND e:f", qt.Or(qt.F("a", qt.Word("b")), qt.And(qt.F("c", qt.Word("d")), qt.F("e", qt.Word("f"))))},
	{"NOT a AND b", qt.And(qt.Not(qt.T(qt.Word("a"))), qt.T(qt.Word("b")))},
	{"+a^2", qt.BoostN(qt.Must(qt.T(qt.Word("a"))), "2")},
	{"(a OR b) AND c", qt.And(qt.Or(qt.T(qt.Word("a")), qt.T(qt.Word("b"))), qt.T(qt.Word("c")))},
	{"a OR b OR c", qt.Or(qt.Or(qt.T(qt.Word("a")), qt.T(qt.Word("b"))), qt.T(qt.Word("c")))},
	{"a AND b AND c", qt.And(qt.And(qt.T(qt.Word("a")), qt.T(qt.Word("b"))), qt.T(qt.Word("c")))},
	{"a OR (b OR c)", qt.Or(qt.T(qt.Word("a")), qt.Or(qt.T(qt.Word("b")), qt.T(qt.Word("c"))))},
	{"NOT a~2^3", qt.Not(qt.BoostN(qt.FuzzyN(qt.T(qt.Word("a")), 2), "3"))},
	{"-a:b OR +c", qt.Or(qt.MustNot(qt.F("a", qt.Word("b"))), qt.Must(qt.T(qt.Word("c"))))},
}

func (p c05) RunBatch(ctx *core.Ctx, batch int) {
	mon.Install()
	defer monFlush(ctx)
	sp := c05Space(ctx.Tier)
	nMain := nBatches(sp.Size())
	nEnum := nMain + nBatches(c05ExtraSize(ctx.Tier))
	switch {
	case batch >= nMain && batch < nEnum:
		lo, hi := batchRange(c05ExtraSize(ctx.Tier), batch-nMain)
		r := ctx.Rand("styles")
		for i := lo; i < hi; i++ {
			p.checkTree(ctx, c05Extra.At(i), r, true)
		}
	case batch < nEnum:
		lo, hi := batchRange(sp.Size(), batch)
		r := ctx.Rand("styles")
		for i := lo; i < hi; i++ {
			p.checkTree(ctx, sp.At(i), r, true)
		}
	case batch == nEnum:
		// long queries: grouping must not depend on the number of clauses
		lf := []*qt.Node{qt.F("f", qt.Word("v")), qt.T(qt.Word("a")), qt.Cmp("n", ">", qt.Int(4)), qt.Range("n", qt.Int(1), qt.Int(5), true), qt.List("s", qt.Word("x"), qt.Word("y"))}
		for _, n := range gen.Sizes([]int{10, 40, 64, 70, 100, 200, 400}, 8, 1200) {
			for variant := 0; variant < 4; variant++ {
				var t *qt.Node
				switch variant {
				case 0, 1: // left-associative chain
					op := qt.Or
					if variant == 1 {
						op = qt.And
					}
					t = lf[0]
					for i := 1; i < n; i++ {
						t = op(t, lf[i%len(lf)])
					}
				default: // balanced alternating AND/OR tree
					var build func(lo, hi, d int) *qt.Node
					build = func(lo, hi, d int) *qt.Node {
						if hi-lo == 1 {
							return lf[(lo+variant)%len(lf)]
						}
						mid := (lo + hi) / 2
						if d%2 == 0 {
							return qt.And(build(lo, mid, d+1), build(mid, hi, d+1))
						}
						return qt.Or(build(lo, mid, d+1), build(mid, hi, d+1))
					}
					t = build(0, n, variant)
				}
				for _, st := range []struct {
					name string
					st   qt.Style
				}{{"minimal", qt.Style{}}, {"full", qt.Style{FullParens: true}}} {
					text := qt.Print(t, st.st)
					ctx.Case(fmt.Sprintf("%d clauses, variant %d, %s", n, variant, st.name), func() { c05Compare(ctx, "long-"+st.name, text, t) })
					ctx.Count("long_queries", 1)
				}
			}
		}
		for _, rt := range qt.RelationTrees() {
			p.checkTree(ctx, rt, ctx.Rand("relations"), true)
			ctx.Count("relation_trees", 1)
		}
		for _, nc := range c05Named {
			ctx.Case(nc.text, func() {
				c05Compare(ctx, "named", nc.text, nc.tree)
			})
			p.checkTree(ctx, nc.tree, ctx.Rand("named"), true)
		}
	default:
		// random deeper trees
		r := ctx.Rand("deep")
		leaves := append(append(qt.FullLeaves(), qt.ExtraLeaves()...), qt.HostileLeaves(r, gen.ValueDict(r, 80), 24, true)...)
		for i := 0; i < 1500; i++ {
			t := qt.RandomTree(r, leaves, 2+r.Intn(5))
			if t.Size() > 40 {
				continue
			}
			p.checkTree(ctx, t, r, false)
		}
	}
}

func c05Compare(ctx *core.Ctx, style, text string, t *qt.Node) {
	got, err, ok := parse(ctx, text, "")
	if !ok {
		return
	}
	want := t.Expr()
	if err != nil {
		ctx.Violate("c05:parse-error:"+style+":"+t.Skeleton(), "printed tree does not parse: %q: %v (tree %s)", text, err, t.Skeleton())
		return
	}
	if !deepEqual(got, want) {
		ctx.Violate("c05:mismatch:"+style+":"+t.Skeleton(), "text %q\n  want %s\n  got  %s", text, gostr(want), gostr(got))
		return
	}
	// the same comparison without the library's constructors in between: the normal form of the
	// printed tree against the normal form read off the parsed expression
	if cw, cg := t.Canon(), oracle.CanonExpr(got); cw != cg {
		ctx.Violate("c05:canon-mismatch:"+style+":"+t.Skeleton(), "text %q\n  want %s\n  got  %s", text, cw, cg)
		return
	}
	ctx.Count("agree", 1)
}

func (c05) checkTree(ctx *core.Ctx, t *qt.Node, r interface{ Intn(int) int }, exhaustive bool) {
	rr := ctx.Rand(fmt.Sprint("t", ctx.Index()))
	d := t.Depth()
	ctx.Count(fmt.Sprintf("trees_depth_%d", minInt(d, 6)), 1)
	// operator-pair coverage
	t.Walk(func(n *qt.Node) {
		for side, k := range n.Kids {
			if !k.IsLeaf() {
				s := side
				if len(n.Kids) == 1 {
					s = 0
				}
				ctx.Distinct("op_pairs", fmt.Sprintf("%s>%s/%d", n.Kind, k.Kind, s))
			}
		}
	})
	if d >= 2 {
		ctx.Distinct("nontrivial", t.Skeleton()+"|"+t.String())
	}
	styles := []struct {
		name string
		st   qt.Style
	}{
		{"minimal", qt.Style{}},
		{"full", qt.Style{FullParens: true}},
		{"tight", qt.Style{Tight: true}},
		{"mixed", qt.Style{WS: wsRun(rr), Lower: kwCase(rr)}},
	}
	// two redundant placements
	nodes := []*qt.Node{}
	t.Walk(func(n *qt.Node) { nodes = append(nodes, n) })
	ex1 := map[*qt.Node]int{nodes[rr.Intn(len(nodes))]: 1}
	ex2 := map[*qt.Node]int{nodes[rr.Intn(len(nodes))]: 1 + rr.Intn(2), nodes[rr.Intn(len(nodes))]: 1}
	styles = append(styles,
		struct {
			name string
			st   qt.Style
		}{"redundant1", qt.Style{Extra: ex1, WrapAll: rr.Intn(2)}},
		struct {
			name string
			st   qt.Style
		}{"redundant2", qt.Style{Extra: ex2, WS: wsRun(rr)}},
	)
	for _, s := range styles {
		text := qt.Print(t, s.st)
		ctx.Case(text, func() {
			c05Compare(ctx, s.name, text, t)
		})
	}
	// AND written as juxtaposition wherever the grammar allows it (C07 decides that the two
	// spellings agree; here the juxtaposed text is held against the tree itself, so a parser that
	// gives the unwritten AND another precedence than the table's shows under this property too)
	tc := t.Clone()
	nj := 0
	for _, a := range qt.AndNodes(tc) {
		if !a.Implicit && qt.JuxEligible(a, qt.Style{}) {
			a.Implicit = true
			nj++
		}
	}
	if nj > 0 {
		text := qt.Print(tc, qt.Style{})
		ctx.Count("juxtaposed_texts", 1)
		ctx.Case(text, func() {
			c05Compare(ctx, "juxtaposed", text, t)
		})
	}
	if d == 2 && ctx.Index()%50 == 0 {
		ctx.Sample("depth2", t.String())
	}
}

func minInt(a, b int) int {
	if a < b {
		return a
	}
	return b
}

func (c05) Finish(res *core.Result, cov map[string]any) []string {
	reasons := []string{}
	cov["distinct_nontrivial"] = res.NDistinct("nontrivial")
	cov["rule"] = "every tree of depth <= 2 over the leaf alphabet (exhaustive) plus seeded random trees of depth <= 6, each printed in 7 styles (minimal / full parentheses / no optional space / mixed whitespace+keyword case / 2 redundant-parenthesis placements / every AND that may be juxtaposed written as juxtaposition) and parsed; Parse(text) must be DeepEqual to the tree built with the expr constructors. Non-trivial = distinct tree of depth >= 2."
	cov["exhaustive"] = true
	cov["op_pairs_seen"] = res.NDistinct("op_pairs")
	floor(res.NDistinct("op_pairs") >= 63, &reasons, "operator (parent,child,side) pairs seen %d < 63", res.NDistinct("op_pairs"))
	reducersAllFired(res, &reasons)
	floor(res.Counters["agree"] > 1000, &reasons, "agreeing parses %d", res.Counters["agree"])
	return reasons
}
