package props

import (
	"strings"

	lucene "github.com/grindlemire/go-lucene"
	"github.com/grindlemire/go-lucene/pkg/lucene/expr"
	"github.com/grindlemire/go-lucene/verif/core"
	"github.com/grindlemire/go-lucene/verif/gen"
	"github.com/grindlemire/go-lucene/verif/mon"
	"github.com/grindlemire/go-lucene/verif/oracle"
	"github.com/grindlemire/go-lucene/verif/qt"
)

// C02: rendered SQL is one confined boolean expression; user text only in literals.
type c02 struct{}

func init() { core.Register(c02{}) }

func (c02) ID() string { return "C02" }

type c02Plan struct {
	*seqPlan
	nHostile int
}

func newC02Plan(tier string) *c02Plan {
	p := &c02Plan{seqPlan: newSeqPlan(tier, 24, 600)}
	if tier == "thorough" {
		p.space = qt.NewSpace(qt.FullLeaves())
		p.nTree = nBatches(p.space.Size()) / 16 // 1:16 sample of the large space; pg_query dominates the cost
	}
	p.nHostile = 8
	return p
}

func (c02) Batches(tier string, seed int64) int {
	p := newC02Plan(tier)
	return p.total() + p.nHostile
}

var c02DefaultFields = []string{"", "df", "my field", `f"q`, "it's", "a;b--", strings.Repeat("z", 70), "ünï", "x?y", "$1", "se'); DROP TABLE t; --"}

func (c02) RunBatch(ctx *core.Ctx, batch int) {
	mon.Install()
	defer monFlush(ctx)
	p := newC02Plan(ctx.Tier)
	base := p.total()
	if batch >= base {
		which := batch - base
		for i, h := range gen.HostileStrings {
			if i%p.nHostile != which {
				continue
			}
			c02Hostile(ctx, h)
		}
		rv := ctx.Rand("random-values")
		for i := 0; i < 120; i++ {
			c02Hostile(ctx, gen.RandString(rv))
		}
		for i, h := range gen.AsciiPrintable() {
			if i%p.nHostile != which {
				continue
			}
			c02Hostile(ctx, h)
			c02Hostile(ctx, "a"+h+"b")
			c02Hostile(ctx, h+h)
		}
		return
	}
	i := 0
	stride := 1
	if ctx.Thorough() && batch >= p.nSeq && batch < p.nSeq+p.nTree {
		// spread the sampled batches over the whole tree space
		lo, hi := batchRange(p.space.Size(), (batch-p.nSeq)*16)
		for k := lo; k < hi; k++ {
			in := qt.Print(p.space.At(k), qt.Style{})
			ctx.Case(in, func() { c02Check(ctx, "tree", in, "", "") })
			ctx.Case(in, func() { c02Check(ctx, "tree", in, "df", "") })
		}
		return
	}
	_ = stride
	p.each(ctx, batch, func(kind, in string) {
		i++
		df := ""
		if i%3 == 0 {
			df = c02DefaultFields[(i/3)%len(c02DefaultFields)]
		}
		ctx.Case(in, func() { c02Check(ctx, kind, in, df, "") })
	})
}

func c02Hostile(ctx *core.Ctx, h string) {
	ins := []string{"a:" + h, h + ":b", h, "a:[" + h + " TO z]", "a:(" + h + " OR b)", "a:>" + h}
	if !strings.Contains(h, `"`) {
		q := qt.Phrase(h).Text
		ins = append(ins, "a:"+q, q+":b", q+":5", q, "a:["+q+" TO "+q+"]", "a:{* TO "+q+"}", "a:["+q+" TO *]", "a:("+q+" OR b OR "+q+")", "a:>"+q, "a:<="+q,
			q+":["+q+" TO "+q+"]", q+":("+q+" OR "+q+")", q+":>="+q, "NOT "+q+":"+q+" OR -"+q+":x*", q+":w*", q+":/r/", "x "+q+" y", "+"+q+" -"+q)
	}
	if e := qt.Escaped(h).Text; e != "" {
		ins = append(ins, "a:"+e, e+":b", e, "a:["+e+" TO z]", e+":["+e+" TO *]", e+":("+e+" OR b)", "a:"+e+"*", e+"*:b", "a:?"+e)
	}
	for _, in := range ins {
		in := in
		ctx.Case(in, func() { c02Check(ctx, "hostile", in, "", h) })
		if len(in)%2 == 0 {
			ctx.Case(in, func() { c02Check(ctx, "hostile", in, "df", h) })
		}
	}
	// the hostile string as default field
	for _, in := range []string{"x", "x y", "x OR w*", `"p q" NOT /r/`, "+x -y"} {
		in := in
		ctx.Case(in, func() { c02Check(ctx, "hostile-default-field", in, h, h) })
	}
}

// provenance collects the columns and string values of a parsed tree.
type provenance struct {
	cols map[string]bool
	strs map[string]bool
}

func collectProvenance(x any, p *provenance) {
	switch v := x.(type) {
	case *expr.Expression:
		if v == nil {
			return
		}
		switch v.Op {
		case expr.Literal, expr.Wild, expr.Regexp:
			switch l := v.Left.(type) {
			case expr.Column:
				p.cols[string(l)] = true
			case string:
				p.strs[l] = true
				if v.Op == expr.Wild {
					t := strings.ReplaceAll(strings.ReplaceAll(l, "*", "%"), "?", "_")
					p.strs[t] = true
				}
			}
			return
		}
		collectProvenance(v.Left, p)
		collectProvenance(v.Right, p)
	case []*expr.Expression:
		for _, e := range v {
			collectProvenance(e, p)
		}
	case *expr.RangeBoundary:
		if v != nil {
			collectProvenance(v.Min, p)
			collectProvenance(v.Max, p)
		}
	}
}

func irSkeleton(x *oracle.IR) string {
	var b strings.Builder
	var walk func(*oracle.IR)
	names := []string{"AND", "OR", "NOT", "CMP", "BETWEEN", "IN", "SIMILAR", "REGEX", "col", "num", "str", "$"}
	walk = func(n *oracle.IR) {
		b.WriteString(names[n.Kind])
		b.WriteString(n.Op)
		if len(n.Args) > 0 {
			b.WriteString("(")
			for _, a := range n.Args {
				walk(a)
				b.WriteString(",")
			}
			b.WriteString(")")
		}
	}
	walk(x)
	return b.String()
}

func rejectClass(r string) string {
	if i := strings.Index(r, ":"); i > 0 && strings.HasPrefix(r, "postgres") {
		// keep "postgres syntax error" and the first words of the message
		w := strings.Fields(r[i+1:])
		if len(w) > 4 {
			w = w[:4]
		}
		return r[:i] + ":" + strings.Join(w, "-")
	}
	w := strings.Fields(r)
	if len(w) > 5 {
		w = w[:5]
	}
	return strings.Join(w, "-")
}

func c02Check(ctx *core.Ctx, kind, in, df, hostile string) {
	e, perr, ok := parse(ctx, in, df)
	if !ok || perr != nil {
		ctx.Count("not_parsed", 1)
		return
	}
	// what may appear in the SQL is decided from the query's own tokens with the harness' own
	// decoding of each term (not from the parsed tree, which would carry a decoding mistake
	// along): every term's text as a possible column, every string-valued term as a possible
	// constant, patterns also in their translated form
	prov := &provenance{cols: map[string]bool{}, strs: map[string]bool{}}
	var toks []oracle.Tok
	lexErr := false
	if ctx.Call("Lexer", func() { toks, lexErr = oracle.Lex(in) }) && !lexErr {
		for _, t := range toks {
			if !oracle.IsTermTok(t) {
				continue
			}
			if sv, isStr := oracle.TypedValue(t).Val.(string); isStr {
				prov.cols[sv] = true
				prov.strs[sv] = true
				prov.strs[strings.ReplaceAll(strings.ReplaceAll(sv, "*", "%"), "?", "_")] = true
			}
		}
		ctx.Count("provenance_from_tokens", 1)
	} else {
		collectProvenance(e, prov)
	}
	if df != "" {
		prov.cols[df] = true
	}
	var sql, psql string
	var serr, perr2 error
	var params []any
	if ctx.Call("ToPostgres", func() {
		if df != "" {
			sql, serr = lucene.ToPostgres(in, lucene.WithDefaultField(df))
		} else {
			sql, serr = lucene.ToPostgres(in)
		}
	}) {
		if serr != nil {
			ctx.Count("inline_render_error", 1)
			ctx.Distinct("render_errors", errClass(serr))
		} else {
			c02Confined(ctx, "inline", kind, in, df, sql, prov, hostile, false)
		}
	}
	if ctx.Call("ToParameterizedPostgres", func() {
		if df != "" {
			psql, params, perr2 = lucene.ToParameterizedPostgres(in, lucene.WithDefaultField(df))
		} else {
			psql, params, perr2 = lucene.ToParameterizedPostgres(in)
		}
	}) {
		if perr2 != nil {
			ctx.Count("param_render_error", 1)
		} else {
			rep, n := oracle.ReplacePlaceholders(psql)
			if n != len(params) {
				ctx.Count("placeholder_count_mismatch", 1) // C04's business
			}
			c02Confined(ctx, "param", kind, in, df, rep, prov, hostile, true)
		}
	}
}

func c02Confined(ctx *core.Ctx, mode, kind, in, df, sql string, prov *provenance, hostile string, param bool) {
	res := oracle.PgRead(sql)
	ctx.Count("renders_checked_"+mode, 1)
	if res.Skipped != "" {
		ctx.Count("pg_skipped", 1)
		return
	}
	if res.Reject != "" {
		ctx.Violate("c02:"+mode+":"+rejectClass(res.Reject), "query %q (default field %q) renders %s SQL %q which is not the one confined boolean expression: %s", in, df, mode, sql, res.Reject)
		return
	}
	bad := ""
	res.IR.Walk(func(n *oracle.IR) {
		if bad != "" {
			return
		}
		switch n.Kind {
		case oracle.ICol:
			ctx.Count("ir_col", 1)
			if !prov.cols[n.Col] {
				bad = "column:" + n.Col
			} else if hostile != "" && n.Col == hostile {
				ctx.Distinct("hostile_as_identifier", hostile)
			}
		case oracle.IStr:
			ctx.Count("ir_str", 1)
			if param {
				if n.Str != "*" {
					bad = "inline-string-in-param-mode:" + n.Str
				}
				return
			}
			if !prov.strs[n.Str] {
				bad = "string:" + n.Str
			} else if hostile != "" && strings.Contains(n.Str, hostile) && hostile != "" {
				ctx.Distinct("hostile_as_constant", hostile)
			}
		case oracle.INum:
			ctx.Count("ir_num", 1)
		case oracle.IParam:
			ctx.Count("ir_param", 1)
		}
	})
	if bad != "" {
		what := bad[:strings.Index(bad, ":")]
		ctx.Violate("c02:"+mode+":foreign-"+what, "query %q (default field %q): PostgreSQL reads %s SQL %q with a %s that does not occur in the query: %q", in, df, mode, sql, what, bad[len(what)+1:])
		return
	}
	sk := irSkeleton(res.IR)
	ctx.Distinct("sql_skeletons", mode+sk)
	hc := "plain"
	if hostile != "" {
		hc = "h:" + hostile
	}
	ctx.Distinct("nontrivial", mode+sk+"|"+hc)
	if ctx.Index()%997 == 0 {
		ctx.Sample(mode+"_"+kind, in+"   =>   "+sql)
	}
}

func (c02) Finish(res *core.Result, cov map[string]any) []string {
	reasons := []string{}
	cov["distinct_nontrivial"] = res.NDistinct("nontrivial")
	cov["exhaustive"] = true
	cov["assumptions"] = []string{"libpg_query (PostgreSQL 15 grammar and scanner) with its defaults: standard_conforming_strings = on", "rendered SQL longer than 64 KiB or deeper than libpg_query's own stack limit is skipped and counted"}
	cov["rule"] = "accepted inputs among token sequences up to length L (exhaustive), depth<=2 trees, fuzzed inputs, and ~200 hostile strings + every printable ASCII character placed as value, field name (raw / quoted / escaped, under every leaf kind: numeric, open and string ranges, comparisons, lists, patterns), range bound, list member, comparison operand, escaped word and default field. Columns and string constants are admitted from the query's own token texts as decoded by the harness (not from the parsed tree). Each successful ToPostgres / ToParameterizedPostgres text is parsed by PostgreSQL's own grammar inside SELECT 1 FROM t WHERE (<text>): one statement, only the WHERE clause populated, no comment tokens, only whitelisted node kinds, every column a field of the query, every string constant a value of the query (none but '*' in parameterized mode). Non-trivial = distinct (mode, SQL skeleton, hostile class)."
	floor(res.Counters["renders_checked_inline"] >= 2000 && res.Counters["renders_checked_param"] >= 2000, &reasons, "renders checked %d/%d", res.Counters["renders_checked_inline"], res.Counters["renders_checked_param"])
	floor(res.NDistinct("hostile_as_constant") >= 100, &reasons, "hostile strings that reached a constant: %d", res.NDistinct("hostile_as_constant"))
	floor(res.NDistinct("hostile_as_identifier") >= 100, &reasons, "hostile strings that reached an identifier: %d", res.NDistinct("hostile_as_identifier"))
	floor(res.Counters["pg_skipped"]*100 <= res.Counters["renders_checked_inline"]+res.Counters["renders_checked_param"], &reasons, "pg skipped %d", res.Counters["pg_skipped"])
	return reasons
}
