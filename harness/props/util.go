// Package props holds one file per property: workload generation and the deciding oracle.
package props

import (
	"fmt"
	"github.com/grindlemire/go-lucene/pkg/driver"
	"math/rand"
	"reflect"
	"strings"

	lucene "github.com/grindlemire/go-lucene"
	"github.com/grindlemire/go-lucene/pkg/lucene/expr"
	"github.com/grindlemire/go-lucene/verif/core"
	"github.com/grindlemire/go-lucene/verif/mon"
)

const batchSize = 4096

func nBatches(n int) int { return (n + batchSize - 1) / batchSize }

// batchRange returns the index range [lo, hi) of a batch over n items.
func batchRange(n, batch int) (int, int) {
	lo := batch * batchSize
	hi := lo + batchSize
	if lo > n {
		lo = n
	}
	if hi > n {
		hi = n
	}
	return lo, hi
}

// parse calls lucene.Parse under panic protection.
func parse(ctx *core.Ctx, in string, df string) (e *expr.Expression, err error, ok bool) {
	ok = ctx.Call("Parse", func() {
		if df != "" {
			e, err = lucene.Parse(in, lucene.WithDefaultField(df))
		} else {
			e, err = lucene.Parse(in)
		}
	})
	// a returned tree belongs to the caller: the one returned 32 parses ago is written over now,
	// as a caller might; if the library still holds on to any of its nodes (a memoised leaf, a
	// cached tree), later results carry the scribble into the oracles
	if ok && e != nil {
		old := parseRing[parseRingPos%len(parseRing)]
		parseRing[parseRingPos%len(parseRing)] = e
		parseRingPos++
		if old != nil {
			scribble(old, 0)
		}
	}
	return
}

var parseRing [32]*expr.Expression
var parseRingPos int

func scribble(x any, depth int) {
	if depth > 64 {
		return
	}
	switch v := x.(type) {
	case *expr.Expression:
		if v == nil {
			return
		}
		switch v.Op {
		case expr.Literal, expr.Wild, expr.Regexp:
			v.Left = "\x00scribbled by the caller"
			return
		}
		scribble(v.Left, depth+1)
		scribble(v.Right, depth+1)
		v.Op = expr.Or
	case []*expr.Expression:
		for _, e := range v {
			scribble(e, depth+1)
		}
	case *expr.RangeBoundary:
		if v != nil {
			scribble(v.Min, depth+1)
			scribble(v.Max, depth+1)
			v.Inclusive = !v.Inclusive
		}
	}
}

func init() { core.BeforeCase = perturb }

var perturbDriver = driver.NewPostgresDriver()

// perturb makes one call from a rotating list of calls that end on error paths or use options
// and inputs the current check does not: whatever they leave behind in the library is then
// seen by the next cases' oracles. Their own outcome is not judged here.
func perturb(c *core.Ctx) {
	c.Count("perturbation_calls", 1)
	if core.CallGuard != nil {
		// step-sanitizer build (C01): these calls are judged like any other - under the step
		// budget, a panic or an endless loop in one of them is a finding
		c.Call("perturbation call", func() { perturbCall(c) })
		return
	}
	defer func() { _ = recover() }()
	perturbCall(c)
}

func perturbCall(c *core.Ctx) {
	switch (c.Index() / 8) % 14 {
	case 0:
		_, _ = lucene.ToPostgres("f:(\"it\" OR \"b\x00\")")
	case 1:
		_, _ = lucene.Parse(`a AND "b`)
	case 2:
		_, _ = lucene.Parse("x:1 OR !")
	case 3:
		_, _ = lucene.Parse("( #")
	case 4:
		_, _, _ = lucene.ToParameterizedPostgres("a:b~2 AND c:[1 TO")
	case 5:
		_, _ = lucene.Parse("go rust", lucene.WithDefaultField("title"))
	case 6:
		_, _ = lucene.ToPostgres("*:x")
	case 7:
		_, _ = lucene.ToPostgres(`a:(1 OR "1" OR 1)`)
	case 8:
		_, _, _ = lucene.ToParameterizedPostgres(`s:("x,y" OR "it''s" OR "\xff")`)
	case 9:
		_, _ = perturbDriver.Render(&expr.Expression{Op: expr.Fuzzy, Left: expr.Lit("x")})
	case 10:
		_, _ = lucene.Parse(strings.Repeat("(", 40) + "a")
	case 11:
		_, _ = lucene.ToPostgres("NOT /(/ OR a:[z TO")
	case 12:
		_, _ = lucene.Parse("title:go rust")
	case 13:
		_, _, _ = perturbDriver.RenderParam(&expr.Expression{Op: expr.In, Left: expr.Lit(expr.Column("a")), Right: expr.Lit("not a list")})
	}
}

func deepEqual(a, b *expr.Expression) bool { return reflect.DeepEqual(a, b) }

func gostr(e *expr.Expression) string {
	if e == nil {
		return "<nil>"
	}
	return fmt.Sprintf("%#v", e)
}

// wsRun returns a generator of non-empty whitespace runs.
func wsRun(r *rand.Rand) func() string {
	chars := []string{" ", "\t", "\n", "\r", "  ", " \t ", "\r\n"}
	return func() string { return chars[r.Intn(len(chars))] }
}

// kwCase returns a keyword re-speller.
func kwCase(r *rand.Rand) func(string) string {
	return func(kw string) string {
		switch r.Intn(3) {
		case 0:
			return strings.ToLower(kw)
		case 1:
			b := []byte(strings.ToLower(kw))
			i := r.Intn(len(b))
			b[i] = b[i] - 'a' + 'A'
			return string(b)
		}
		return kw
	}
}

func floor(cond bool, reasons *[]string, format string, args ...any) {
	if !cond {
		*reasons = append(*reasons, "floor: "+fmt.Sprintf(format, args...))
	}
}

// monFlush moves the hook-sink counters into the context counters.
func monFlush(ctx *core.Ctx) {
	for i, n := range mon.ReducerHist {
		if n > 0 && i < len(mon.ReducerNames) {
			ctx.Count("reducer_"+mon.ReducerNames[i], n)
		}
		mon.ReducerHist[i] = 0
	}
	if mon.ImplicitAnds > 0 {
		ctx.Count("hook_implicit_and", mon.ImplicitAnds)
		mon.ImplicitAnds = 0
	}
	if mon.RenderNodes > 0 {
		ctx.Count("hook_render_nodes", mon.RenderNodes)
		mon.RenderNodes = 0
	}
}

// reducersAllFired adds a floor: every reducer fired at least once.
func reducersAllFired(res *core.Result, reasons *[]string) {
	fired := 0
	for _, n := range mon.ReducerNames {
		if res.Counters["reducer_"+n] > 0 {
			fired++
		}
	}
	// all 12 fire on the pinned tree; the floor leaves room for a refactoring that merges reducers
	floor(fired >= 9, reasons, "only %d distinct reducers fired", fired)
}
