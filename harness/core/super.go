package core

import (
	"bufio"
	"encoding/json"
	"fmt"
	"os"
	"os/exec"
	"path/filepath"
	"runtime"
	"sort"
	"strings"
	"syscall"
	"time"
)

// Known is one entry of KNOWN_FINDINGS.txt.
type Known struct {
	Property string
	Sig      string
	Text     string
}

// LoadKnown parses the known-findings file (lines starting with "known:").
func LoadKnown(path string) []Known {
	f, err := os.Open(path)
	if err != nil {
		return nil
	}
	defer f.Close()
	out := []Known{}
	sc := bufio.NewScanner(f)
	sc.Buffer(make([]byte, 1<<20), 1<<20)
	for sc.Scan() {
		line := strings.TrimSpace(sc.Text())
		if !strings.HasPrefix(line, "known:") {
			continue
		}
		k := Known{Text: strings.TrimSpace(strings.TrimPrefix(line, "known:"))}
		for _, f := range strings.Fields(line) {
			if strings.HasPrefix(f, "property=") {
				k.Property = strings.TrimPrefix(f, "property=")
			}
			if strings.HasPrefix(f, "sig=") && k.Sig == "" {
				k.Sig = strings.TrimPrefix(f, "sig=")
			}
		}
		if k.Property != "" && k.Sig != "" {
			out = append(out, k)
		}
	}
	return out
}

// terminating lists the properties whose statement promises that calls return; a stalled
// call is a violation of those, and only inconclusive for the others.
var terminating = map[string]bool{"C01": true, "C13": true, "C16": true}

// SuperArgs configures a supervised run.
type SuperArgs struct {
	Prop     string
	Tier     string
	Seed     int64
	Exe      string // worker executable (normally os.Args[0])
	VerifDir string
	Level    string
	Workers  int
	ExtraEnv []string
	// PostMerge lets a command add findings that come from outside the worker protocol.
	PostMerge func(res *Result)
}

// Supervise runs all workers, merges, classifies, writes evidence and returns the exit code.
func Supervise(a SuperArgs) int {
	start := time.Now()
	p := Lookup(a.Prop)
	if p == nil {
		fmt.Printf("INCONCLUSIVE property=%s reason=unknown-property\n", a.Prop)
		return 3
	}
	nb := p.Batches(a.Tier, a.Seed)
	nw := a.Workers
	if nw <= 0 {
		nw = runtime.NumCPU()
	}
	if nw > nb {
		nw = nb
	}
	if nw < 1 {
		nw = 1
	}
	outDir := filepath.Join(a.VerifDir, "build", "run", fmt.Sprintf("%s-%s-%d", a.Prop, a.Tier, os.Getpid()))
	os.RemoveAll(outDir)
	if err := os.MkdirAll(outDir, 0o755); err != nil {
		fmt.Printf("INCONCLUSIVE property=%s reason=%v\n", a.Prop, err)
		return 3
	}
	defer os.RemoveAll(outDir)

	limit := 20 * time.Minute
	if a.Tier == "thorough" {
		limit = 100 * time.Minute
	}

	type wstate struct {
		cmd  *exec.Cmd
		errf string
		done chan error
	}
	ws := make([]*wstate, nw)
	for i := 0; i < nw; i++ {
		cmd := exec.Command(a.Exe, "-worker", "-prop", a.Prop, "-tier", a.Tier,
			"-seed", fmt.Sprint(a.Seed), "-wid", fmt.Sprint(i), "-nw", fmt.Sprint(nw), "-out", outDir)
		errf := filepath.Join(outDir, fmt.Sprintf("w%d.err", i))
		ef, _ := os.Create(errf)
		cmd.Stderr = ef
		cmd.Stdout = ef
		cmd.Env = append(os.Environ(), "GOMAXPROCS=2", "GOMEMLIMIT=3GiB", "GOTRACEBACK=single")
		cmd.Env = append(cmd.Env, a.ExtraEnv...)
		w := &wstate{cmd: cmd, errf: errf, done: make(chan error, 1)}
		if err := cmd.Start(); err != nil {
			fmt.Printf("INCONCLUSIVE property=%s reason=cannot-start-worker %v\n", a.Prop, err)
			return 3
		}
		go func() { w.done <- cmd.Wait(); ef.Close() }()
		ws[i] = w
	}

	res := NewResult()
	inconclusive := []string{}
	deadline := time.After(limit)
	for i, w := range ws {
		var err error
		select {
		case err = <-w.done:
		case <-deadline:
			for _, x := range ws {
				x.cmd.Process.Kill()
			}
			inconclusive = append(inconclusive, fmt.Sprintf("watchdog: run exceeded %s", limit))
			err = <-w.done
			deadline = time.After(time.Hour) // everything is killed; just collect
		}
		code := 0
		signaled := false
		if err != nil {
			if ee, ok := err.(*exec.ExitError); ok {
				code = ee.ExitCode()
				if st, ok := ee.Sys().(syscall.WaitStatus); ok && st.Signaled() {
					signaled = true
				}
			} else {
				code = -1
			}
		}
		if code == 0 {
			r, rerr := ReadResult(filepath.Join(outDir, fmt.Sprintf("w%d.gob", i)))
			if rerr != nil {
				inconclusive = append(inconclusive, fmt.Sprintf("worker %d result unreadable: %v", i, rerr))
				continue
			}
			res.Merge(r)
			continue
		}
		if len(inconclusive) > 0 && strings.HasPrefix(inconclusive[0], "watchdog") {
			continue
		}
		// abnormal end: find the case it was working on
		curB, _ := os.ReadFile(filepath.Join(outDir, fmt.Sprintf("w%d.cur", i)))
		var batch, index int
		var input string
		fmt.Sscanf(string(curB), "%d %d %q", &batch, &index, &input)
		errTail := tail(w.errf, 3000)
		switch {
		case code == 97:
			v := Violation{Property: a.Prop, Sig: "stall", Msg: fmt.Sprintf("a single case did not finish within %d s", stallSeconds), Input: input, Tier: a.Tier, Seed: a.Seed, Batch: batch, Index: index}
			if terminating[a.Prop] {
				res.Violations = append(res.Violations, v)
				res.VioCount["stall"]++
			} else {
				inconclusive = append(inconclusive, fmt.Sprintf("worker %d stalled on case %d/%d input=%q", i, batch, index, trunc(input, 200)))
			}
		case strings.Contains(errTail, "fatal error:") || signaled:
			sig := "fatal"
			if strings.Contains(errTail, "stack overflow") || strings.Contains(errTail, "stack exceeds") {
				sig = "fatal:stack-overflow"
			} else if strings.Contains(errTail, "out of memory") || strings.Contains(errTail, "cannot allocate") {
				sig = "fatal:out-of-memory"
			} else if strings.Contains(errTail, "concurrent map") {
				sig = "fatal:concurrent-map"
			} else if signaled {
				sig = "fatal:signal"
			}
			res.Violations = append(res.Violations, Violation{Property: a.Prop, Sig: sig, Msg: "worker process died: " + trunc(errTail, 1500), Input: input, Tier: a.Tier, Seed: a.Seed, Batch: batch, Index: index})
			res.VioCount[sig]++
		case strings.Contains(errTail, "panic:") && panicSite(errTail) != "unknown":
			// a panic that escaped every recover and has a repository frame on its stack:
			// the library panicked in a call the harness had not wrapped
			sig := "panic:unrecovered:" + panicSite(errTail)
			res.Violations = append(res.Violations, Violation{Property: a.Prop, Sig: sig, Msg: "worker process died with a panic inside the library: " + trunc(errTail, 1500), Input: input, Tier: a.Tier, Seed: a.Seed, Batch: batch, Index: index})
			res.VioCount[sig]++
		default:
			inconclusive = append(inconclusive, fmt.Sprintf("worker %d exited with %d (harness failure?): %s", i, code, trunc(errTail, 1500)))
		}
	}

	if a.PostMerge != nil {
		a.PostMerge(res)
	}

	cov := map[string]any{}
	floors := p.Finish(res, cov)
	inconclusive = append(inconclusive, floors...)

	// classify
	known := LoadKnown(filepath.Join(a.VerifDir, "KNOWN_FINDINGS.txt"))
	knownSig := map[string]Known{}
	for _, k := range known {
		if k.Property == a.Prop {
			knownSig[k.Sig] = k
		}
	}
	replayDir := filepath.Join(a.VerifDir, "replays")
	if d := os.Getenv("VERIF_EVIDENCE_DIR"); d != "" {
		replayDir = filepath.Join(d, "replays")
	}
	sort.SliceStable(res.Violations, func(i, j int) bool { return res.Violations[i].Sig < res.Violations[j].Sig })
	newVio := 0
	knownSeen := map[string]int64{}
	printed := map[string]int{}
	for _, v := range res.Violations {
		if _, ok := knownSig[v.Sig]; ok {
			continue
		}
		newVio++
		if printed[v.Sig] >= 2 {
			continue
		}
		printed[v.Sig]++
		path := WriteReplay(replayDir, v)
		fmt.Printf("VIOLATION property=%s replay=%s\n", a.Prop, path)
		fmt.Printf("  sig=%s input=%q\n  %s\n", v.Sig, trunc(v.Input, 400), trunc(v.Msg, 1200))
	}
	var unknownTotal int64
	for sig, n := range res.VioCount {
		if _, ok := knownSig[sig]; ok {
			knownSeen[sig] = n
		} else {
			unknownTotal += n
		}
	}
	ksigs := []string{}
	for s := range knownSeen {
		ksigs = append(ksigs, s)
	}
	sort.Strings(ksigs)
	for _, s := range ksigs {
		fmt.Printf("KNOWN-FINDING: %s (observed %d times)\n", knownSig[s].Text, knownSeen[s])
	}

	// evidence
	cov["evaluations"] = res.Cases
	if _, ok := cov["distinct_nontrivial"]; !ok {
		cov["distinct_nontrivial"] = int64(0)
	}
	counters := map[string]int64{}
	for k, v := range res.Counters {
		counters[k] = v
	}
	cov["counters"] = counters
	dist := map[string]int64{}
	for k, v := range res.Distinct {
		dist[k] = int64(len(v))
	}
	cov["distinct_sets"] = dist
	if len(res.MaxF) > 0 {
		cov["maxima"] = res.MaxF
	}
	if hp := os.Getenv("VERIF_HARVEST"); hp != "" {
		if hb, herr := os.ReadFile(hp); herr == nil {
			var h struct {
				Strings []string `json:"strings"`
				Ints    []int    `json:"ints"`
				Files   int      `json:"files"`
			}
			if json.Unmarshal(hb, &h) == nil {
				cov["constants_harvested_from_the_tree"] = map[string]any{"source_files": h.Files, "string_literals_added_to_dictionaries": len(h.Strings), "integer_literals_added_to_size_lists": h.Ints}
			}
		}
	}
	samples := []any{}
	skeys := []string{}
	for k := range res.Samples {
		skeys = append(skeys, k)
	}
	sort.Strings(skeys)
	for _, k := range skeys {
		for _, s := range res.Samples[k] {
			samples = append(samples, map[string]string{"kind": k, "case": s})
		}
	}
	if len(samples) == 0 {
		samples = append(samples, "none recorded")
	}
	if _, ok := cov["samples"]; !ok {
		cov["samples"] = samples
	}
	cov["workers"] = nw
	cov["batches"] = nb
	cov["known_findings_observed"] = knownSeen
	cov["inconclusive_reasons"] = inconclusive
	ev := map[string]any{
		"property_id": a.Prop,
		"tier":        a.Tier,
		"seed":        a.Seed,
		"level":       a.Level,
		"coverage":    cov,
		"assumptions": cov["assumptions"],
		"wall_s":      time.Since(start).Seconds(),
		"violations":  unknownTotal,
	}
	if ev["assumptions"] == nil {
		ev["assumptions"] = []string{}
	}
	delete(cov, "assumptions")
	evDir := filepath.Join(a.VerifDir, "evidence")
	if d := os.Getenv("VERIF_EVIDENCE_DIR"); d != "" {
		evDir = d // runs against scratch copies must not overwrite the evidence of /repo
	}
	os.MkdirAll(evDir, 0o755)
	eb, _ := json.MarshalIndent(ev, "", " ")
	os.WriteFile(filepath.Join(evDir, a.Prop+".json"), append(eb, '\n'), 0o644)

	fmt.Printf("SUMMARY property=%s tier=%s seed=%d cases=%d distinct_nontrivial=%v violations=%d known=%d wall=%.1fs\n",
		a.Prop, a.Tier, a.Seed, res.Cases, cov["distinct_nontrivial"], unknownTotal, len(knownSeen), time.Since(start).Seconds())
	if newVio > 0 || unknownTotal > 0 {
		return 1
	}
	if len(inconclusive) > 0 {
		for _, r := range inconclusive {
			fmt.Printf("INCONCLUSIVE property=%s reason=%s\n", a.Prop, r)
		}
		return 3
	}
	return 0
}

func tail(path string, n int) string {
	b, err := os.ReadFile(path)
	if err != nil {
		return ""
	}
	if len(b) > n {
		// keep the head (fatal error line) and the tail
		return string(b[:n/2]) + "\n...\n" + string(b[len(b)-n/2:])
	}
	return string(b)
}
