// Package core is the supervisor/worker framework shared by every property check:
// deterministic batches, per-case bookkeeping, violation records with replay files,
// evidence counters and distinct-sets, known-finding classification.
package core

import (
	"encoding/gob"
	"encoding/json"
	"fmt"
	"hash/fnv"
	"math/rand"
	"os"
	"path/filepath"
	"runtime/debug"
	"sort"
	"strings"
	"sync/atomic"
	"time"
)

// Property is one registered property check.
type Property interface {
	// ID is the property id (C01 ...).
	ID() string
	// Batches returns how many batches the tier has. Every batch is a pure function of
	// (tier, seed, batch).
	Batches(tier string, seed int64) int
	// RunBatch generates and checks every case of one batch, reporting through ctx.
	RunBatch(ctx *Ctx, batch int)
	// Finish inspects the merged result and returns floor failures (inconclusive reasons)
	// and fills the evidence coverage keys.
	Finish(res *Result, cov map[string]any) []string
}

var registry = map[string]Property{}

// Register adds a property to the registry.
func Register(p Property) { registry[p.ID()] = p }

// Lookup finds a property.
func Lookup(id string) Property { return registry[id] }

// IDs lists registered properties.
func IDs() []string {
	out := []string{}
	for k := range registry {
		out = append(out, k)
	}
	sort.Strings(out)
	return out
}

// Violation is one observed violation.
type Violation struct {
	Property string `json:"property"`
	Sig      string `json:"sig"`
	Msg      string `json:"msg"`
	Input    string `json:"input"`
	Tier     string `json:"tier"`
	Seed     int64  `json:"seed"`
	Batch    int    `json:"batch"`
	Index    int    `json:"index"`
	Replay   string `json:"-"`
}

// Result is what one worker (or the merge of all workers) observed.
type Result struct {
	Cases      int64
	Counters   map[string]int64
	Distinct   map[string]map[uint64]struct{}
	Samples    map[string][]string
	Violations []Violation
	VioCount   map[string]int64 // per signature
	MaxF       map[string]float64
	Notes      []string
}

// NewResult creates an empty result.
func NewResult() *Result {
	return &Result{
		Counters: map[string]int64{},
		Distinct: map[string]map[uint64]struct{}{},
		Samples:  map[string][]string{},
		VioCount: map[string]int64{},
		MaxF:     map[string]float64{},
	}
}

// Merge adds another result into this one.
func (r *Result) Merge(o *Result) {
	r.Cases += o.Cases
	for k, v := range o.Counters {
		r.Counters[k] += v
	}
	for k, set := range o.Distinct {
		dst := r.Distinct[k]
		if dst == nil {
			dst = map[uint64]struct{}{}
			r.Distinct[k] = dst
		}
		for h := range set {
			dst[h] = struct{}{}
		}
	}
	for k, v := range o.Samples {
		for _, s := range v {
			if len(r.Samples[k]) < maxSamples {
				r.Samples[k] = append(r.Samples[k], s)
			}
		}
	}
	r.Violations = append(r.Violations, o.Violations...)
	for k, v := range o.VioCount {
		r.VioCount[k] += v
	}
	for k, v := range o.MaxF {
		if v > r.MaxF[k] {
			r.MaxF[k] = v
		}
	}
	r.Notes = append(r.Notes, o.Notes...)
}

// NDistinct returns the size of a distinct set.
func (r *Result) NDistinct(name string) int64 { return int64(len(r.Distinct[name])) }

const maxSamples = 6
const maxDistinct = 4_000_000
const maxViolationsPerSig = 3
const maxViolations = 60

// Ctx is the per-worker context handed to RunBatch.
type Ctx struct {
	Prop  string
	Tier  string
	Seed  int64
	Batch int
	Res   *Result

	idx      int
	curInput string

	// replay mode: only the case with this index reports
	replayIndex int
	replayMode  bool
	ReplayHit   bool
	ReplayVio   []Violation

	progress  *int64 // atomically advanced per case (stall watchdog)
	curFile   *os.File
	replayDir string
}

// Thorough reports whether the tier is the thorough one.
func (c *Ctx) Thorough() bool { return c.Tier == "thorough" }

// Rand returns a PRNG that is a pure function of (property, tier-independent seed, batch, salt).
func (c *Ctx) Rand(salt string) *rand.Rand {
	h := fnv.New64a()
	fmt.Fprintf(h, "%s|%d|%d|%s", c.Prop, c.Seed, c.Batch, salt)
	return rand.New(rand.NewSource(int64(h.Sum64())))
}

// Case runs one case. input is the human-readable form of the case (kept for reports).
func (c *Ctx) Case(input string, fn func()) {
	c.idx++
	c.curInput = input
	if c.progress != nil {
		atomic.AddInt64(c.progress, 1)
	}
	if c.curFile != nil {
		// not synced: survives the death of this process, which is all that is needed
		s := fmt.Sprintf("%d %d %q\n", c.Batch, c.idx, trunc(input, 4000))
		c.curFile.WriteAt([]byte(s+strings.Repeat(" ", 64)), 0)
	}
	if c.replayMode && c.idx == c.replayIndex {
		c.ReplayHit = true
	}
	c.Res.Cases++
	if BeforeCase != nil && c.idx%8 == 0 {
		BeforeCase(c)
	}
	fn()
}

// CallGuard, when set (step-sanitizer build), arms a step budget for one guarded call if none is
// armed yet and returns the function that disarms it: a loop that never ends is then a budget
// violation wherever it is entered from, not only inside the calls a check budgets itself.
var CallGuard func(inputLen int) (restore func())

// BeforeCase, when set, runs before every 8th case: the property packages use it to make
// unrelated calls into the library (failing ones above all) in between the cases, so that state
// surviving a call - a pooled buffer, a cache entry, a lazily built table - meets the oracles.
var BeforeCase func(c *Ctx)

// Index is the index of the current case inside its batch (1-based).
func (c *Ctx) Index() int { return c.idx }

// Count adds to a named counter.
func (c *Ctx) Count(name string, n int64) { c.Res.Counters[name] += n }

// Max keeps the maximum of a named float.
func (c *Ctx) Max(name string, v float64) {
	if v > c.Res.MaxF[name] {
		c.Res.MaxF[name] = v
	}
}

// Hash64 hashes a string.
func Hash64(s string) uint64 {
	h := fnv.New64a()
	h.Write([]byte(s))
	return h.Sum64()
}

// Distinct records key in the named distinct-set.
func (c *Ctx) Distinct(name, key string) {
	set := c.Res.Distinct[name]
	if set == nil {
		set = map[uint64]struct{}{}
		c.Res.Distinct[name] = set
	}
	if len(set) >= maxDistinct {
		return
	}
	set[Hash64(key)] = struct{}{}
}

// Sample keeps a few literal samples per kind.
func (c *Ctx) Sample(name, text string) {
	if len(c.Res.Samples[name]) < maxSamples {
		c.Res.Samples[name] = append(c.Res.Samples[name], trunc(text, 300))
	}
}

// Violate records a violation on the current case. sig classifies it (fine grained,
// computed from the observation only).
func (c *Ctx) Violate(sig, format string, args ...any) {
	if c.replayMode {
		if c.idx == c.replayIndex {
			c.ReplayVio = append(c.ReplayVio, Violation{Property: c.Prop, Sig: sig, Msg: fmt.Sprintf(format, args...), Input: c.curInput})
		}
		return
	}
	c.Res.VioCount[sig]++
	if c.Res.VioCount[sig] > maxViolationsPerSig || len(c.Res.Violations) >= maxViolations {
		return
	}
	v := Violation{
		Property: c.Prop, Sig: sig, Msg: trunc(fmt.Sprintf(format, args...), 2000),
		Input: trunc(c.curInput, 20000), Tier: c.Tier, Seed: c.Seed, Batch: c.Batch, Index: c.idx,
	}
	c.Res.Violations = append(c.Res.Violations, v)
}

// PanicClassifier lets a check give specific panics (the step-budget sentinel) their own signature.
var PanicClassifier func(what string, r any) (sig, msg string, handled bool)

// Call runs a call into the system under test and converts a panic into a violation.
// It reports whether the call returned normally.
func (c *Ctx) Call(what string, fn func()) (ok bool) {
	defer func() {
		if r := recover(); r != nil {
			ok = false
			if PanicClassifier != nil {
				if sig, msg, handled := PanicClassifier(what, r); handled {
					c.Violate(sig, "%s", msg)
					return
				}
			}
			st := string(debug.Stack())
			c.Violate("panic:"+what+":"+panicSite(st), "panic in %s: %v\n%s", what, r, trunc(st, 1500))
		}
	}()
	if CallGuard != nil {
		defer CallGuard(len(c.curInput))()
	}
	fn()
	return true
}

// panicSite extracts the first repository frame of a stack for use in signatures.
func panicSite(stack string) string {
	lines := strings.Split(stack, "\n")
	for i, l := range lines {
		if strings.Contains(l, "go-lucene") && !strings.Contains(l, "/verif/") && !strings.Contains(l, "go-lucene/verif") && i > 0 {
			// function line
			f := strings.TrimSpace(l)
			if p := strings.LastIndex(f, "/"); p >= 0 {
				f = f[p+1:]
			}
			if p := strings.Index(f, "("); p >= 0 {
				f = f[:p]
			}
			return f
		}
	}
	return "unknown"
}

func trunc(s string, n int) string {
	if len(s) <= n {
		return s
	}
	return s[:n] + fmt.Sprintf("...(%d bytes)", len(s))
}

// ---------------------------------------------------------------------------------------------
// worker

// WorkerArgs describes one worker process.
type WorkerArgs struct {
	Prop     string
	Tier     string
	Seed     int64
	Worker   int
	NWorkers int
	OutDir   string
}

// ProgressProbe, when set, returns a counter that advances while library code is running.
var ProgressProbe func() uint64

// stallSeconds is the single-case stall limit (wall clock; the margin over the observed
// per-case time, microseconds to a few seconds for the largest scaling inputs, is > 100x).
const stallSeconds = 240

// RunWorker runs the batches assigned to this worker and writes its result file.
func RunWorker(a WorkerArgs) int {
	p := Lookup(a.Prop)
	if p == nil {
		fmt.Fprintf(os.Stderr, "unknown property %s\n", a.Prop)
		return 2
	}
	res := NewResult()
	var progress int64
	cur, _ := os.Create(filepath.Join(a.OutDir, fmt.Sprintf("w%d.cur", a.Worker)))
	ctx := &Ctx{Prop: a.Prop, Tier: a.Tier, Seed: a.Seed, Res: res, progress: &progress, curFile: cur}

	// stall watchdog: a single case that does not finish is reported with its input
	done := make(chan struct{})
	go func() {
		last := int64(-1)
		lastChange := time.Now()
		t := time.NewTicker(2 * time.Second)
		defer t.Stop()
		for {
			select {
			case <-done:
				return
			case <-t.C:
				now := atomic.LoadInt64(&progress)
				if ProgressProbe != nil {
					// on the tick-instrumented build the logical clock counts as progress too: a
					// slow but advancing case is not a stall (runaway loops in instrumented code
					// are the step budget's business, deterministically)
					now += int64(ProgressProbe() >> 8)
				}
				if now != last {
					last = now
					lastChange = time.Now()
					continue
				}
				if time.Since(lastChange) > stallSeconds*time.Second {
					f, _ := os.Create(filepath.Join(a.OutDir, fmt.Sprintf("w%d.stall", a.Worker)))
					if f != nil {
						fmt.Fprintf(f, "stalled for %ds\n", stallSeconds)
						f.Close()
					}
					os.Exit(97)
				}
			}
		}
	}()

	n := p.Batches(a.Tier, a.Seed)
	for b := a.Worker; b < n; b += a.NWorkers {
		ctx.Batch = b
		ctx.idx = 0
		p.RunBatch(ctx, b)
	}
	close(done)

	f, err := os.Create(filepath.Join(a.OutDir, fmt.Sprintf("w%d.gob", a.Worker)))
	if err != nil {
		fmt.Fprintln(os.Stderr, err)
		return 2
	}
	defer f.Close()
	if err := gob.NewEncoder(f).Encode(res); err != nil {
		fmt.Fprintln(os.Stderr, err)
		return 2
	}
	return 0
}

// ReadResult loads a worker result.
func ReadResult(path string) (*Result, error) {
	f, err := os.Open(path)
	if err != nil {
		return nil, err
	}
	defer f.Close()
	res := NewResult()
	if err := gob.NewDecoder(f).Decode(res); err != nil {
		return nil, err
	}
	return res, nil
}

// ---------------------------------------------------------------------------------------------
// replay

// ReplayFile is the on-disk form of a violation.
type ReplayFile struct {
	Violation
}

// WriteReplay stores a violation as a replay file and returns its path.
func WriteReplay(dir string, v Violation) string {
	os.MkdirAll(dir, 0o755)
	name := fmt.Sprintf("%s-%s-s%d-b%d-i%d-%08x.json", v.Property, v.Tier, v.Seed, v.Batch, v.Index, uint32(Hash64(v.Sig+v.Input)))
	path := filepath.Join(dir, name)
	b, _ := json.MarshalIndent(v, "", " ")
	os.WriteFile(path, b, 0o644)
	return path
}

// Replay re-executes the batch of a replay file and reports the verdict of the recorded case.
func Replay(path string) int {
	b, err := os.ReadFile(path)
	if err != nil {
		fmt.Println("REPLAY error:", err)
		return 2
	}
	var v Violation
	if err := json.Unmarshal(b, &v); err != nil {
		fmt.Println("REPLAY error:", err)
		return 2
	}
	p := Lookup(v.Property)
	if p == nil {
		fmt.Println("REPLAY error: unknown property", v.Property)
		return 2
	}
	ctx := &Ctx{Prop: v.Property, Tier: v.Tier, Seed: v.Seed, Batch: v.Batch, Res: NewResult(), replayMode: true, replayIndex: v.Index}
	crashed := true
	func() {
		defer func() {
			if r := recover(); r != nil {
				fmt.Printf("REPLAY property=%s verdict=harness-panic %v\n", v.Property, r)
			}
		}()
		p.RunBatch(ctx, v.Batch)
		crashed = false
	}()
	if crashed {
		return 2
	}
	if !ctx.ReplayHit {
		fmt.Printf("REPLAY property=%s verdict=inconclusive (case %d/%d not reached)\n", v.Property, v.Batch, v.Index)
		return 3
	}
	if len(ctx.ReplayVio) == 0 {
		fmt.Printf("REPLAY property=%s verdict=held input=%q\n", v.Property, trunc(v.Input, 300))
		return 0
	}
	for _, rv := range ctx.ReplayVio {
		fmt.Printf("REPLAY property=%s verdict=violated sig=%s input=%q\n  %s\n", v.Property, rv.Sig, trunc(rv.Input, 300), rv.Msg)
	}
	return 1
}
