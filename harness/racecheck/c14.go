// Package racecheck is the C14 check. It is linked only into vrace, which is built with the
// race detector; it installs yield-only hook sinks (no atomics, no locks) so that the
// instrumentation adds no happens-before edges that could hide a race.
package racecheck

import (
	"encoding/json"
	"fmt"
	"math/rand"
	"reflect"
	"runtime"
	"strings"
	"sync"
	"sync/atomic"

	lucene "github.com/grindlemire/go-lucene"
	"github.com/grindlemire/go-lucene/internal/verifhook"
	"github.com/grindlemire/go-lucene/pkg/driver"
	"github.com/grindlemire/go-lucene/pkg/lucene/expr"
	"github.com/grindlemire/go-lucene/verif/core"
	"github.com/grindlemire/go-lucene/verif/qt"
)

type c14 struct{}

func init() {
	core.Register(c14{})
	// yield points inside the library: set once, before any goroutine starts
	verifhook.OnParseIter = func(int, int) { runtime.Gosched() }
	verifhook.OnRender = func(int, bool) { runtime.Gosched() }
	verifhook.OnReducer = func(int) { runtime.Gosched() }
}

func (c14) ID() string { return "C14" }

type config struct {
	procs, goroutines int
	overlap           bool
}

func configs(tier string) []config {
	out := []config{}
	reps := 3
	if tier == "thorough" {
		reps = 30
	}
	for r := 0; r < reps; r++ {
		for _, p := range []int{2, 4, 16} {
			for _, g := range []int{2, 8, 64} {
				out = append(out, config{p, g, false})
			}
		}
		out = append(out, config{4, 8, true}, config{16, 64, true})
	}
	return out
}

func (c14) Batches(tier string, seed int64) int { return len(configs(tier)) }

// corpus: every operator, both range kinds, open bounds, lists, patterns, prefixes, default field.
func corpus(r *rand.Rand) []string {
	qs := []string{
		"a", "a:b", "a:5", "a:-2.5", `a:"it's"`, `name:"o'neil"`, "a:'b'", `t:"it's" AND u:"x'y'z"`, `name:"o'neil" AND NOT title:'x y'`, "a:b*", "a:?x*", "a:foo*bar?baz", "title:intro*duction?", "longpattern*?", "a:/re+/", "a:>5", "a:>=5", "a:<0.5", "a:<=-4", "a:[1 TO 5]", "a:{1 TO 5}", "a:[* TO 5]", "a:{2 TO *}",
		"a:[1.5 TO 2.5]", "a:[aa TO zz]", "a:(x OR y OR z)", "a:(x OR x OR y)", "a:(1 OR 2 OR 1 OR 3)", "a:(x OR y OR x)", "a:[5 TO 5]", "g:(x OR y OR z*)", "a:/C:\\\\/", "a:(1 OR 2.5 OR \"z z\")", "NOT a:b", "+a:b", "-a:b", "a~", "a~2", "a^", "a^2.5", "a:b AND c:d", "a:b OR c:d", "a:b c:d e:f",
		"(a:foo OR b:bar) AND c:baz", "a OR b AND c:[* TO -1] OR d AND NOT +e:f", `title:"The Right Way" AND go`, "x (y OR z*) -w", "a:b^2 AND foo~", `foo\ bar:b`, `a:\(1\+1\)\:2`,
		"a:b and c:d", "a or b", "nOt x", "n:[1 to 5]", "a AnD b oR c", "not a And b", "x Or y", "m:{1 tO 5}", "a:b aNd c:d", "(a AND b", "a:[1 TO", `a:"unterminated`, "a:!", "", "AND", `f"q:b`, strings.Repeat("z", 70) + ":b", "a:\x00", "a:\xff",
	}
	leaves := qt.FullLeaves()
	for i := 0; i < 40; i++ {
		qs = append(qs, qt.Print(qt.RandomTree(r, leaves, 1+r.Intn(4)), qt.Style{}))
	}
	// long and deep queries: hundreds of levels of recursion in flight in every goroutine at once
	qs = append(qs,
		"f0:v0"+strings.Repeat(" AND f1:v1", 300),
		"a:1"+strings.Repeat(" OR b:[1 TO 2]", 250),
		strings.Repeat("NOT (", 200)+"a:b"+strings.Repeat(")", 200),
		strings.Repeat("a:b AND (c:d OR (", 120)+"e:f"+strings.Repeat("))", 120),
		"x"+strings.Repeat(" y:z*", 400),
		// a lone wildcard in every position it can take, field position included
		"*:x", "*:[1 TO 3]", "?:a", "*:(a OR b)", "f:[* TO 5]", "f:{2 TO *}", "f:*", "NOT h:*", "* OR f:[* TO *]", "a:a", "a:(a OR b)", "a:b AND b:1",
	)
	return qs
}

var opNames = []string{"Parse", "ToPostgres", "ToParameterizedPostgres", "Render(shared)", "RenderParam(shared)", "String(shared)", "GoString(shared)", "Marshal(shared)", "Validate(shared)", "NewDriver.Render(shared)", "ParseDF", "Render(own)", "Parse(shared option)", "ToParameterizedPostgres(shared option)", "Parse(first of a shared option slice)", "Parse(whole shared option slice)"}

var sharedDriver = driver.NewPostgresDriver()

// option values created once and handed to every call and every goroutine: an option is an
// argument, using it must not change it (the names hold backslashes and padding on purpose)
var sharedOptA = lucene.WithDefaultField(`d\\f`)
var sharedOptB = lucene.WithDefaultField(" x\\\\y ")

// a slice of options with spare capacity behind the part that is passed: the library may read
// the options it is given, not write behind them
var sharedOptSlice = sliceOf(lucene.WithDefaultField("first"), lucene.WithDefaultField("second"), lucene.WithDefaultField("third"))

func sliceOf[T any](xs ...T) []T { return xs }

func decoded(doc string) func() *expr.Expression {
	return func() *expr.Expression {
		var e expr.Expression
		if json.Unmarshal([]byte(doc), &e) != nil {
			return expr.Lit("undecodable")
		}
		return &e
	}
}

var handBuilt = []func() *expr.Expression{
	func() *expr.Expression { return expr.BOOST(expr.Eq("a", "b"), -2.5) },
	func() *expr.Expression { return expr.BOOST(expr.Lit("x"), 0) },
	func() *expr.Expression { return expr.FUZZY(expr.Lit("x"), -1) },
	func() *expr.Expression { return expr.FUZZY(expr.Eq("a", "b"), 0) },
	func() *expr.Expression { return expr.AND(expr.BOOST(expr.Lit("x"), -1), expr.NOT(expr.FUZZY(expr.Lit("y"), 0))) },
	decoded(`{"left":"a","operator":"BOOST","power":0}`),
	decoded(`{"left":{"left":"a","operator":"BOOST","power":-3},"operator":"NOT"}`),
	decoded(`{"left":"a","operator":"FUZZY","distance":-2}`),
	func() *expr.Expression { return expr.Rang("a", 5, 1, true) },
	func() *expr.Expression { return expr.IN("a", expr.LIST([]*expr.Expression{expr.Lit("x"), expr.Lit("x")})) },
}

// runOp executes operation op on query index qi and returns a canonical description of the result.
func runOp(op int, q string, shared *expr.Expression) (res string) {
	defer func() {
		if r := recover(); r != nil {
			res = fmt.Sprintf("PANIC %v", r)
		}
	}()
	switch op {
	case 0:
		e, err := lucene.Parse(q)
		return fmt.Sprintf("%#v|%v", e, err)
	case 1:
		s, err := lucene.ToPostgres(q)
		return fmt.Sprintf("%s|%v", s, err)
	case 2:
		s, p, err := lucene.ToParameterizedPostgres(q)
		return fmt.Sprintf("%s|%#v|%v", s, p, err)
	case 10:
		e, err := lucene.Parse(q, lucene.WithDefaultField("dfl"))
		return fmt.Sprintf("%#v|%v", e, err)
	case 12:
		e, err := lucene.Parse(q, sharedOptA)
		return fmt.Sprintf("%#v|%v", e, err)
	case 13:
		s, p, err := lucene.ToParameterizedPostgres(q, sharedOptB)
		return fmt.Sprintf("%s|%#v|%v", s, p, err)
	case 14:
		e, err := lucene.Parse(q, sharedOptSlice[:1]...)
		return fmt.Sprintf("%#v|%v", e, err)
	case 15:
		e, err := lucene.Parse(q, sharedOptSlice...)
		return fmt.Sprintf("%#v|%v", e, err)
	case 11:
		e, err := lucene.Parse(q)
		if err != nil {
			return "parse error"
		}
		s, err := sharedDriver.Render(e)
		return fmt.Sprintf("%s|%v", s, err)
	}
	if shared == nil {
		return "no shared expression"
	}
	switch op {
	case 3:
		s, err := sharedDriver.Render(shared)
		return fmt.Sprintf("%s|%v", s, err)
	case 4:
		s, p, err := sharedDriver.RenderParam(shared)
		return fmt.Sprintf("%s|%#v|%v", s, p, err)
	case 5:
		return shared.String()
	case 6:
		return fmt.Sprintf("%#v", shared)
	case 7:
		b, err := json.Marshal(shared)
		return fmt.Sprintf("%s|%v", b, err)
	case 8:
		return fmt.Sprint(expr.Validate(shared))
	case 9:
		s, err := driver.NewPostgresDriver().Render(shared)
		return fmt.Sprintf("%s|%v", s, err)
	}
	return "?"
}

const nOps = 16

var coldDone bool

// coldStart makes the very first use of the package-level entry points in this process a
// concurrent one (lazy initialisation races are invisible once a sequential call has run).
func coldStart(ctx *core.Ctx) {
	if coldDone {
		return
	}
	coldDone = true
	runtime.GOMAXPROCS(8)
	qs := []string{"a:b", "a:b*", "a:[1 TO 5]", "x y", "a:(x OR y)", "a and b", "n:[1 to 5] Or noT x", "a:'it''s' oR b", `k:"o'neil" and not j`}
	start := make(chan struct{})
	var wg sync.WaitGroup
	out := make([]string, 16)
	for g := 0; g < 16; g++ {
		wg.Add(1)
		go func(g int) {
			defer wg.Done()
			<-start
			q := qs[g%len(qs)]
			a, _ := lucene.ToPostgres(q)
			b, _, _ := lucene.ToParameterizedPostgres(q)
			e, _ := lucene.Parse(q, lucene.WithDefaultField("d"))
			out[g] = a + "|" + b + "|" + fmt.Sprintf("%#v", e)
		}(g)
	}
	close(start)
	wg.Wait()
	ctx.Case("cold start: 16 goroutines make the first calls of the process", func() {
		for g := range out {
			q := qs[g%len(qs)]
			a, _ := lucene.ToPostgres(q)
			b, _, _ := lucene.ToParameterizedPostgres(q)
			e, _ := lucene.Parse(q, lucene.WithDefaultField("d"))
			ctx.Count("cold_start_comparisons", 1)
			if want := a + "|" + b + "|" + fmt.Sprintf("%#v", e); out[g] != want {
				ctx.Violate("c14:cold-start-result-differs", "first concurrent use on %q gave %q, later sequential use %q", q, out[g], want)
			}
		}
	})
}

var seqDone bool

// sequencePurity: results must depend on the arguments of a call only, not on the calls made
// before it. The same (entry point, query, option) calls are made in three different orders
// (so that every call has different predecessors) and must give identical results.
func sequencePurity(ctx *core.Ctx) {
	if seqDone {
		return
	}
	seqDone = true
	queries := []string{"a:b AND c", "x", "NOT y OR k:[1 TO 5]", "status:open OR urgent", "a b*", "w* /re/", "foo~ bar^2", "a:(x OR y) z", `"p q" -r`,
		"a AND", "(a b", "x y)", "a:[1 TO", `"unterminated`, "a:b:c", "a:!", "", "a:b~2 AND c:d", "n:[1 TO 5] OR m:(1 OR 2)", "+x -y", "5", "a:5 b",
		// pairs that plausible cache keys would confuse: regrouped, re-spaced, quoted vs bare
		"p:1 AND q:2 OR r:3", "p:1 AND (q:2 OR r:3)", "pp:1 OR qq:2 AND rr:3", "(pp:1 OR qq:2) AND rr:3", "-(a:1 OR b:2) AND c:3", "-a:1 OR b:2 AND c:3",
		// a lone wildcard as bound and value before and after it was seen as a field name; a value
		// spelled like a field; equal list members; failing lists before valid ones
		"f:[* TO 5]", "f:{2 TO *}", "f:*", "NOT h:*", "*:x", "*:[1 TO 3]", "?:a", "f:[* TO 9]", "g:*", "a:a", "b:a AND a:1", "a:(a OR b)", "t:(x OR x)", "f:(\"it\" OR \"b\x00\")", "g:(\"s\" OR \"x y\")", "h:(1 OR \"1\")",
		`k:"7"`, "k:7", "k:7.0", `a:["1" TO "5"]`, "a:[1 TO 5]", "a:b  AND  c", "A:b AND c", "a:b and c", `a:"b" AND c`, "a:(b) AND c", "a:b* AND c", `a:"b*" AND c`}
	opts := []string{"", "dfa", "my field", ""}
	call := func(fn int, q, df string, explicitEmpty bool) string {
		switch fn {
		case 0:
			var e *expr.Expression
			var err error
			if df != "" || explicitEmpty {
				e, err = lucene.Parse(q, lucene.WithDefaultField(df))
			} else {
				e, err = lucene.Parse(q)
			}
			return fmt.Sprintf("%#v|%v", e, err != nil)
		case 1:
			var s string
			var err error
			if df != "" || explicitEmpty {
				s, err = lucene.ToPostgres(q, lucene.WithDefaultField(df))
			} else {
				s, err = lucene.ToPostgres(q)
			}
			return fmt.Sprintf("%s|%v", s, err != nil)
		default:
			var s string
			var p []any
			var err error
			if df != "" || explicitEmpty {
				s, p, err = lucene.ToParameterizedPostgres(q, lucene.WithDefaultField(df))
			} else {
				s, p, err = lucene.ToParameterizedPostgres(q)
			}
			return fmt.Sprintf("%s|%#v|%v", s, p, err != nil)
		}
	}
	type key struct {
		fn, qi, oi int
	}
	base := map[key]string{}
	check := func(order string, k key) {
		res := call(k.fn, queries[k.qi], opts[k.oi], k.oi == 3)
		ctx.Count("sequence_calls", 1)
		if want, ok := base[k]; !ok {
			base[k] = res
		} else if want != res {
			ctx.Violate("c14:result-depends-on-earlier-calls:"+[]string{"Parse", "ToPostgres", "ToParameterizedPostgres"}[k.fn], "call %d on %q with default field %q gives %q in the %s order but %q earlier: the result depends on previous calls", k.fn, queries[k.qi], opts[k.oi], res, order, want)
		}
	}
	ctx.Case("call-sequence purity: same calls in three different orders", func() {
		// order 1: per query, options ascending
		for qi := range queries {
			for oi := range opts {
				for fn := 0; fn < 3; fn++ {
					check("first", key{fn, qi, oi})
				}
			}
		}
		// order 2: per option (descending), queries descending: every no-option call now
		// follows a call with a default field on another query, failed parses included
		for oi := len(opts) - 1; oi >= 0; oi-- {
			for qi := len(queries) - 1; qi >= 0; qi-- {
				for fn := 2; fn >= 0; fn-- {
					check("second", key{fn, qi, oi})
				}
			}
		}
		// order 3: the same query with and without the option back to back, option first
		for qi := range queries {
			for fn := 0; fn < 3; fn++ {
				check("third", key{fn, qi, 1})
				check("third", key{fn, qi, 0})
				check("third", key{fn, qi, 2})
				check("third", key{fn, qi, 0})
			}
		}
		// order 4: seeded random
		r := ctx.Rand("sequence")
		for i := 0; i < 3000; i++ {
			check("random", key{r.Intn(3), r.Intn(len(queries)), r.Intn(len(opts))})
		}
	})
}

func (c14) RunBatch(ctx *core.Ctx, batch int) {
	coldStart(ctx)
	sequencePurity(ctx)
	cfg := configs(ctx.Tier)[batch]
	runtime.GOMAXPROCS(cfg.procs)
	r := ctx.Rand("corpus")
	qs := corpus(r)
	// shared expressions and their untouched twins
	shared := make([]*expr.Expression, len(qs))
	twins := make([]*expr.Expression, len(qs))
	printed := make([]string, len(qs)) // what each expression looked like the moment Parse returned it
	for i, q := range qs {
		shared[i], _ = lucene.Parse(q)
		printed[i] = fmt.Sprintf("%#v", shared[i])
		twins[i], _ = lucene.Parse(q)
	}
	// expressions only a constructor or a decoder can build (amounts Parse never produces): they
	// are shared, printed, validated and encoded like the others and must come out untouched
	for _, mk := range handBuilt {
		qs = append(qs, "a")
		shared = append(shared, mk())
		twins = append(twins, mk())
		printed = append(printed, fmt.Sprintf("%#v", shared[len(shared)-1]))
	}
	ctx.Case("expressions returned earlier are not changed by later calls to Parse", func() {
		for i, q := range qs {
			ctx.Count("snapshot_comparisons", 1)
			if now := fmt.Sprintf("%#v", shared[i]); now != printed[i] {
				ctx.Violate("c14:earlier-result-changed-by-later-parse", "the expression Parse(%q) returned was\n  %s\nand after parsing the rest of the corpus it is\n  %s", q, printed[i], now)
				return
			}
		}
	})
	// sequential baseline, twice (determinism of repeated calls)
	base := make([][]string, len(qs))
	for i, q := range qs {
		base[i] = make([]string, nOps)
		for op := 0; op < nOps; op++ {
			base[i][op] = runOp(op, q, shared[i])
		}
	}
	ctx.Case(fmt.Sprintf("sequential repeat, %d queries", len(qs)), func() {
		for i, q := range qs {
			for op := 0; op < nOps; op++ {
				again := runOp(op, q, shared[i])
				ctx.Count("sequential_comparisons", 1)
				if again != base[i][op] {
					ctx.Violate("c14:nondeterministic:"+opNames[op], "%s on %q gives %q the first time and %q the second", opNames[op], q, base[i][op], again)
				}
				if strings.HasPrefix(again, "PANIC") {
					ctx.Violate("c14:panic:"+opNames[op], "%s on %q: %s", opNames[op], q, again)
				}
			}
		}
	})
	// concurrent phase
	type rec struct {
		qi, op int
		res    string
	}
	perG := 400
	if cfg.goroutines >= 64 {
		perG = 120
	}
	if ctx.Thorough() {
		perG *= 3
	}
	results := make([][]rec, cfg.goroutines)
	// queries nobody has made before (field names, values and text unique to this goroutine and
	// step): whatever the library remembers per name, value or query text is missed - and
	// filled - by several goroutines at once, which the corpus, warmed up by the sequential
	// baseline, can never do
	type freshRec struct {
		q   string
		op  int
		res string
	}
	fresh := make([][]freshRec, cfg.goroutines)
	start := make(chan struct{})
	var wg sync.WaitGroup
	var inflight [nOps]int32
	overlaps := make([]map[[2]int]struct{}, cfg.goroutines)
	for g := 0; g < cfg.goroutines; g++ {
		wg.Add(1)
		seed := r.Int63()
		go func(g int) {
			defer wg.Done()
			rr := rand.New(rand.NewSource(seed))
			mine := make([]rec, 0, perG)
			seen := map[[2]int]struct{}{}
			<-start
			for k := 0; k < perG; k++ {
				if k%4 == 1 {
					q := fmt.Sprintf("u%d_%d_%d:w%d_%d OR x%d_%d_%d:[1 TO %d] AND NOT y%d_%d_%d:p%d* OR z:[%d.%d25 TO %d.5] OR z:>%d%d.125", batch, g, k, g, k, batch, g, k, k+2, batch, g, k, k, k, g, k+g+1, g, k)
					op := rr.Intn(3)
					fresh[g] = append(fresh[g], freshRec{q, op, runOp(op, q, nil)})
					continue
				}
				qi := rr.Intn(len(qs))
				if k%3 == 0 {
					qi = k % 7 // few keys: many goroutines on the same shared expressions
				}
				op := rr.Intn(nOps)
				if cfg.overlap {
					atomic.AddInt32(&inflight[op], 1)
					for o := 0; o < nOps; o++ {
						n := atomic.LoadInt32(&inflight[o])
						if (o != op && n > 0) || (o == op && n > 1) {
							seen[[2]int{op, o}] = struct{}{}
						}
					}
				}
				res := runOp(op, qs[qi], shared[qi])
				if cfg.overlap {
					atomic.AddInt32(&inflight[op], -1)
				}
				mine = append(mine, rec{qi, op, res})
			}
			results[g] = mine
			overlaps[g] = seen
		}(g)
	}
	close(start)
	wg.Wait()
	ctx.Case(fmt.Sprintf("concurrent GOMAXPROCS=%d goroutines=%d overlap-accounting=%v", cfg.procs, cfg.goroutines, cfg.overlap), func() {
		for g := range results {
			for _, rc := range results[g] {
				ctx.Count("concurrent_operations", 1)
				ctx.Count("op_"+opNames[rc.op], 1)
				if rc.op >= 3 && rc.op <= 9 {
					ctx.Count("shared_expression_uses", 1)
				}
				if rc.res != base[rc.qi][rc.op] {
					ctx.Violate("c14:concurrent-result-differs:"+opNames[rc.op], "%s on %q under %d goroutines gives %q, sequentially %q", opNames[rc.op], qs[rc.qi], cfg.goroutines, rc.res, base[rc.qi][rc.op])
				}
			}
			for p := range overlaps[g] {
				ctx.Distinct("overlapping_pairs", opNames[p[0]]+"||"+opNames[p[1]])
			}
		}
		for g := range fresh {
			for _, fr := range fresh[g] {
				ctx.Count("fresh_name_operations", 1)
				if again := runOp(fr.op, fr.q, nil); again != fr.res {
					ctx.Violate("c14:concurrent-result-differs:fresh:"+opNames[fr.op], "%s on the never-seen query %q under %d goroutines gives %q, sequentially afterwards %q", opNames[fr.op], fr.q, cfg.goroutines, fr.res, again)
				}
				if strings.HasPrefix(fr.res, "PANIC") {
					ctx.Violate("c14:panic:"+opNames[fr.op], "%s on %q: %s", opNames[fr.op], fr.q, fr.res)
				}
			}
		}
		for i := range shared {
			ctx.Count("twin_comparisons", 1)
			if !reflect.DeepEqual(shared[i], twins[i]) {
				ctx.Violate("c14:expression-modified", "the expression of %q was modified by rendering/printing/validating/encoding it:\n  now  %#v\n  twin %#v", qs[i], shared[i], twins[i])
			}
		}
		ctx.Distinct("nontrivial", fmt.Sprintf("%d/%d/%v/%d", cfg.procs, cfg.goroutines, cfg.overlap, batch))
		ctx.Sample("config", fmt.Sprintf("GOMAXPROCS=%d goroutines=%d ops/goroutine=%d overlap-accounting=%v queries=%d", cfg.procs, cfg.goroutines, perG, cfg.overlap, len(qs)))
	})
}

func (c14) Finish(res *core.Result, cov map[string]any) []string {
	reasons := []string{}
	cov["distinct_nontrivial"] = res.NDistinct("overlapping_pairs") + res.NDistinct("nontrivial")
	cov["overlapping_operation_pairs_observed"] = res.NDistinct("overlapping_pairs")
	cov["race_reports"] = res.Counters["race_reports"]
	cov["assumptions"] = []string{"the Go race detector reports only races on the interleavings the scheduler produced; hook sinks only call runtime.Gosched()", "overlap accounting runs in separate configurations because its atomics add synchronisation"}
	cov["rule"] = "N goroutines (2/8/64) x GOMAXPROCS (2/4/16), started together, run seeded scripts of 14 operations (Parse, ToPostgres, ToParameterizedPostgres, the same with option values shared by all calls, shared-driver Render/RenderParam, String, %#v, Marshal, Validate, fresh driver) over ~100 queries covering every operator, long and deep ones, a lone wildcard in every position, a third of the operations hitting 7 shared expressions; built with -race. Results are compared with a sequential baseline after the join, shared expressions with untouched twins, sequential repeats with each other; every race detector report is a violation. Non-trivial = distinct overlapping (operation, operation) pair observed in flight plus distinct concurrent configurations."
	floor(res.Counters["concurrent_operations"] >= 10000, &reasons, "concurrent operations %d", res.Counters["concurrent_operations"])
	floor(res.NDistinct("overlapping_pairs") >= 30, &reasons, "overlapping operation pairs observed %d < 30", res.NDistinct("overlapping_pairs"))
	floor(res.Counters["race_logs_scanned"] > 0, &reasons, "race detector logs not scanned")
	floor(res.Counters["sequence_calls"] >= 1000, &reasons, "call-sequence purity calls %d", res.Counters["sequence_calls"])
	return reasons
}

func floor(cond bool, reasons *[]string, format string, args ...any) {
	if !cond {
		*reasons = append(*reasons, "floor: "+fmt.Sprintf(format, args...))
	}
}
