package gen

import (
	"encoding/json"
	"fmt"
	"math/rand"
	"strings"
)

// OpNames are the operator names of the JSON encoding plus hostile variants.
var OpNames = []string{"AND", "OR", "EQUALS", "LIKE", "NOT", "RANGE", "MUST", "MUST_NOT", "BOOST", "FUZZY", "LITERAL", "WILD", "REGEXP", "GREATER", "LESS", "GREATER_EQ", "LESS_EQ", "IN", "LIST"}

var badOpNames = []string{"", "and", "Equals", "UNDEFINED", "XOR", "MUSTNOT", " AND", "0", "null"}

var jsonLeaves = []string{
	`"a"`, `"b c"`, `""`, `"*"`, `"a*"`, `"?"`, `"/x/"`, `"/"`, `"//"`, `"/a*b/"`, `"/a\\\\/"`, `"/a\\/"`, `"b*\\"`, `"x?\\\\\\"`, `"\\"`, `"\ufffd"`, `5`, `-3`, `0`, `1.5`, `1e5`, `1e400`, `-0`, `1.0`, `5.0`, `null`, `true`, `false`,
	`"NaN"`, `"min"`, `"\"min\":"`, `"\"left\":"`, `"it's"`, `"ü"`, `"\u0000"`, `"\ud800"`, `9223372036854775807`, `9223372036854775808`, `1e-320`, `"[1, 2]"`, `"x,y"`, `"'*'"`, `"(a"`, `"%"`, `"_"`,
	`{"min":1,"max":2,"inclusive":true}`, `{"max":5,"extra":{"min":1}}`, `{"min":1,"x":{"max":2}}`, `{"min":1}`, `{"max":"z"}`, `{"min":null,"max":null}`, `{"max":5,"x":"\"min\":"}`, `{"min":"*","max":"*"}`,
}

// JSONGen builds schema-aware expression documents.
type JSONGen struct {
	R *rand.Rand
}

func (g *JSONGen) leaf() string {
	if g.R.Intn(5) == 0 {
		return g.hostile()
	}
	return jsonLeaves[g.R.Intn(len(jsonLeaves))]
}

// hostile returns a dictionary string as a JSON string (invalid UTF-8 is replaced by the encoder).
func (g *JSONGen) hostile() string {
	h := HostileStrings[g.R.Intn(len(HostileStrings))]
	if g.R.Intn(2) == 0 {
		h = RandString(g.R)
	}
	b, _ := json.Marshal(h)
	return string(b)
}

func (g *JSONGen) op() string {
	if g.R.Intn(12) == 0 {
		return badOpNames[g.R.Intn(len(badOpNames))]
	}
	return OpNames[g.R.Intn(len(OpNames))]
}

// Doc returns a random document of at most the given depth.
func (g *JSONGen) Doc(depth int) string {
	r := g.R
	if depth <= 0 || r.Intn(4) == 0 {
		return g.leaf()
	}
	op := g.op()
	return g.node(op, depth)
}

// Node builds a mostly well-shaped node for the operator, with occasional schema violations.
func (g *JSONGen) node(op string, depth int) string {
	r := g.R
	sub := func() string { return g.Doc(depth - 1) }
	field := func() string {
		if r.Intn(8) == 0 {
			return sub()
		}
		if r.Intn(4) == 0 {
			return g.hostile()
		}
		return []string{`"a"`, `"b"`, `"my field"`, `5`, `"f\"q"`, `""`, `"` + strings.Repeat("z", 70) + `"`}[r.Intn(7)]
	}
	members := map[string]string{"operator": fmt.Sprintf("%q", op)}
	switch op {
	case "AND", "OR":
		members["left"], members["right"] = sub(), sub()
	case "NOT", "MUST", "MUST_NOT":
		members["left"] = sub()
	case "FUZZY":
		members["left"] = sub()
		if r.Intn(2) == 0 {
			members["distance"] = []string{"1", "0", "2", "-1", "1.5", `"2"`, "null", "1e3", "99999999999999999999"}[r.Intn(9)]
		}
	case "BOOST":
		members["left"] = sub()
		if r.Intn(2) == 0 {
			members["power"] = []string{"1", "0", "2", "-1", "1.5", `"2"`, "null", "1e308", "1e-300"}[r.Intn(9)]
		}
	case "EQUALS", "GREATER", "LESS", "GREATER_EQ", "LESS_EQ":
		members["left"], members["right"] = field(), sub()
	case "LIKE":
		members["left"] = field()
		members["right"] = []string{`"a*"`, `"*"`, `"?"`, `"/x/"`, `"//"`, `"b?c*"`, `"plain"`, `5`, `""`, `"b*\\"`, `"?\\\\\\"`, `"a\\*b*"`, `"*\\"`}[r.Intn(13)]
		if r.Intn(10) == 0 {
			members["right"] = sub()
		}
	case "RANGE":
		members["left"] = field()
		bound := func() string {
			return []string{`1`, `5`, `1.5`, `"*"`, `"a"`, `"z z"`, `""`, `null`, `"x,y"`, `-2`, `1e30`, `{"a":1}`, `[1]`, `true`, `"a*"`}[r.Intn(15)]
		}
		b := map[string]string{"min": bound(), "max": bound(), "inclusive": []string{"true", "false", "1", `"x"`, "null"}[r.Intn(5)]}
		if r.Intn(8) == 0 {
			delete(b, []string{"min", "max", "inclusive"}[r.Intn(3)])
		}
		members["right"] = obj(r, b)
		if r.Intn(12) == 0 {
			members["right"] = sub()
		}
	case "IN":
		members["left"] = field()
		members["right"] = g.node("LIST", depth-1)
		if r.Intn(10) == 0 {
			members["right"] = sub()
		}
	case "LIST":
		n := r.Intn(4)
		items := []string{}
		for i := 0; i < n; i++ {
			if r.Intn(10) == 0 {
				items = append(items, sub())
			} else {
				items = append(items, g.leaf())
			}
		}
		members["left"] = "[" + strings.Join(items, ",") + "]"
		if r.Intn(10) == 0 {
			members["left"] = sub()
		}
	case "LITERAL", "WILD", "REGEXP":
		members["left"] = g.leaf()
	default:
		members["left"] = sub()
		if r.Intn(2) == 0 {
			members["right"] = sub()
		}
	}
	// schema violations
	switch r.Intn(14) {
	case 0:
		delete(members, "left")
	case 1:
		delete(members, "operator")
	case 2:
		members["right"] = sub()
	case 3:
		members["extra"] = sub()
	case 4:
		members["left"] = "null"
	case 5:
		members["boundaries"] = `{"min":1,"max":2,"inclusive":true}`
	case 6:
		members["left"] = "[" + sub() + "," + sub() + "]"
	}
	return obj(r, members)
}

func obj(r *rand.Rand, m map[string]string) string {
	keys := make([]string, 0, len(m))
	for k := range m {
		keys = append(keys, k)
	}
	// deterministic order, then a seeded shuffle
	sortStrings(keys)
	r.Shuffle(len(keys), func(i, j int) { keys[i], keys[j] = keys[j], keys[i] })
	parts := []string{}
	for _, k := range keys {
		kb, _ := json.Marshal(k)
		parts = append(parts, string(kb)+":"+m[k])
	}
	sep := ","
	if r.Intn(6) == 0 {
		sep = " ,\n "
	}
	return "{" + strings.Join(parts, sep) + "}"
}

func sortStrings(s []string) {
	for i := 1; i < len(s); i++ {
		for j := i; j > 0 && s[j] < s[j-1]; j-- {
			s[j], s[j-1] = s[j-1], s[j]
		}
	}
}

// JSONDict are fragments for byte-level mutation of JSON documents.
var JSONDict = []string{
	`"left":`, `"right":`, `"operator":`, `"min":`, `"max":`, `"inclusive":`, `"distance":`, `"power":`, `"boundaries":`,
	"{", "}", "[", "]", ",", ":", `""`, `"*"`, `"/"`, "null", "true", "1", "-1", "1.5", "1e999", `"AND"`, `"RANGE"`, `"LIST"`, `"IN"`, `"LIKE"`, `"FUZZY"`, `"BOOST"`, `"LITERAL"`,
	`{"left":"a","operator":"EQUALS","right":"b"}`, `{"min":1,"max":2,"inclusive":true}`, `{"left":["a","b"],"operator":"LIST"}`, " ", "\n", `\u0000`, `\"`,
}
