package gen

import "strings"

// Family is an adversarial input shape parameterised by size.
type Family struct {
	Name string
	Make func(n int) string
}

func rep(s string, n int) string { return strings.Repeat(s, n) }

// Families are the scaling shapes of C01.
var Families = []Family{
	{"and-chain", func(n int) string { return "a" + rep(" AND a", n) }},
	{"implicit-and-chain", func(n int) string { return "a" + rep(" a", n) }},
	{"or-chain", func(n int) string { return "a" + rep(" OR a", n) }},
	{"field-and-chain", func(n int) string { return "f:a" + rep(" AND f:a", n) }},
	{"right-nested-and", func(n int) string { return rep("a AND (", n) + "a" + rep(")", n) }},
	{"nested-parens", func(n int) string { return rep("(", n) + "a" + rep(")", n) }},
	{"open-parens", func(n int) string { return rep("(", n) }},
	{"close-parens", func(n int) string { return "a" + rep(")", n) }},
	{"nested-not", func(n int) string { return rep("NOT (", n) + "a" + rep(")", n) }},
	{"not-run", func(n int) string { return rep("NOT ", n) + "a" }},
	{"nested-must", func(n int) string { return rep("+(", n) + "a" + rep(")", n) }},
	{"plus-run", func(n int) string { return rep("+", n) + "a" }},
	{"minus-run", func(n int) string { return rep("- ", n) + "a" }},
	{"nested-mustnot", func(n int) string { return rep("-(", n) + "a" + rep(")", n) }},
	{"value-list", func(n int) string { return "a:(b" + rep(" OR c", n) + ")" }},
	{"fuzzy-chain", func(n int) string { return "a" + rep("~2", n) }},
	{"boost-chain", func(n int) string { return "a" + rep("^2", n) }},
	{"colon-chain", func(n int) string { return "a" + rep(":b", n) }},
	{"open-squares", func(n int) string { return rep("[", n) }},
	{"mixed-brackets", func(n int) string { return rep("([{", n) }},
	{"long-word", func(n int) string { return rep("ab", n) }},
	{"long-phrase", func(n int) string { return `f:"` + rep("a ", n) + `"` }},
	{"long-regexp", func(n int) string { return "f:/" + rep("a.", n) + "/" }},
	{"spaces", func(n int) string { return rep(" ", n) + "a" }},
	{"backslashes", func(n int) string { return rep(`\`, n) }},
	{"valid-prefix-bad-end", func(n int) string { return "a" + rep(" AND a", n) + " )" }},
	{"valid-prefix-bad-char", func(n int) string { return "a" + rep(" OR a", n) + " !" }},
	{"quotes", func(n int) string { return rep(`"`, n) }},
	{"range-chain", func(n int) string { return rep("a:[1 TO 2] ", n) + "b" }},
	{"wildcard-or-chain", func(n int) string { return "f:a*" + rep(" OR f:b?c", n) }},
	{"alternating-nest", func(n int) string { return rep("a AND (b OR (", n/2) + "c" + rep("))", n/2) }},
	{"cmp-chain", func(n int) string { return rep("a:>=1 ", n) + "b" }},
	{"long-number", func(n int) string { return "a:" + rep("9", n) }},
	{"unicode-word", func(n int) string { return rep("é日", n) }},
	{"escaped-word", func(n int) string { return "a:" + rep(`\(`, n) }},
	{"unterminated-phrase", func(n int) string { return `a:"` + rep("x ", n) }},
	{"not-and-chain", func(n int) string { return "NOT a" + rep(" AND NOT a", n) }},
	{"prefix-suffix-mix", func(n int) string { return rep("+a~2^3 OR -b ", n) + "c" }},
	{"field-group-nest", func(n int) string { return rep("a:(", n) + "b" + rep(")", n) }},
	{"field-group-or-nest", func(n int) string { return rep("a:(b OR ", n) + "c*" + rep(")", n) }},
	{"not-field-group-nest", func(n int) string { return rep("NOT a:(", n) + "b" + rep(")", n) }},
	{"cmp-group-nest", func(n int) string { return rep("a:>=(", n) + "5" + rep(")", n) }},
	{"list-of-groups", func(n int) string { return "a:(" + rep("(b OR c) OR ", n) + "d)" }},
	{"must-field-chain", func(n int) string { return rep("+a:b -c:d ", n) + "e" }},
	{"fielded-range-or-chain", func(n int) string { return "f:[1 TO 2]" + rep(" OR f:{* TO 3.5}", n) }},
	{"big-numbers", func(n int) string { return "a:(1" + rep(" OR 18446744073709551616", n) + ")" }},
	// multi-byte text in front of each kind of lexical error (byte offsets run ahead of rune counts)
	{"cjk-then-bad-char", func(n int) string { return "\u30bf\u30a4\u30c8\u30eb:" + rep("\u6f22", n) + "\u3001\u5927" }},
	{"accented-then-bad-char", func(n int) string { return rep("\u00e9", n) + " %" }},
	{"cyrillic-unterminated-quote", func(n int) string { return rep("\u044f", n) + ":\"\u041c\u043e\u0441\u043a\u0432\u0430" }},
	{"emoji-unterminated-regexp", func(n int) string { return rep("\U0001F600", n) + " /ab" }},
	{"cjk-clauses-then-bad-end", func(n int) string { return rep("\u540d:\u6f22 ", n) + "!" }},
	// deep redundant grouping around an operand, a field value and a whole query
	{"parens-around-field-value", func(n int) string { return "f:" + rep("(", n) + "v" + rep(")", n) }},
	{"parens-around-operand", func(n int) string { return "a AND NOT " + rep("(", n) + "b:c" + rep(")", n) + " OR d" }},
	{"parens-around-suffixed", func(n int) string { return rep("(", n) + "a" + rep(")", n) + "~2 OR b" }},
}
