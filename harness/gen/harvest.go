package gen

import (
	"encoding/json"
	"os"
	"sort"
)

// Harvested constants of the repository under test (see cmd/harvest): string literals become
// dictionary entries, integer literals become sizes. The file named by VERIF_HARVEST is written
// by run.sh from the very tree the check is built from.
var (
	HarvestStrings []string
	HarvestInts    []int
	HarvestFiles   int
)

func init() {
	p := os.Getenv("VERIF_HARVEST")
	if p == "" {
		return
	}
	b, err := os.ReadFile(p)
	if err != nil {
		return
	}
	var h struct {
		Strings []string `json:"strings"`
		Ints    []int    `json:"ints"`
		Files   int      `json:"files"`
	}
	if json.Unmarshal(b, &h) != nil {
		return
	}
	HarvestStrings, HarvestInts, HarvestFiles = h.Strings, h.Ints, h.Files
	have := map[string]bool{}
	for _, s := range HostileStrings {
		have[s] = true
	}
	for _, s := range HarvestStrings {
		if !have[s] {
			HostileStrings = append(HostileStrings, s)
			have[s] = true
		}
	}
}

// Sizes merges a check's own size list with n-1, n, n+1 for every harvested integer n in
// [lo, hi] (a limit written in the code is met exactly, from both sides).
func Sizes(own []int, lo, hi int) []int { return sizes(own, lo, hi, false) }

// SizesWithProducts also takes the sums and products of two harvested integers (constant
// expressions such as 2*maxColumnNameLen are limits too); meant for cheap dimensions like the
// length of one string.
func SizesWithProducts(own []int, lo, hi int) []int { return sizes(own, lo, hi, true) }

func sizes(own []int, lo, hi int, pairs bool) []int {
	set := map[int]bool{}
	for _, n := range own {
		set[n] = true
	}
	base := append([]int{}, HarvestInts...)
	if pairs && len(HarvestInts) <= 40 {
		// constant expressions such as 2*maxColumnNameLen are limits too
		for i, a := range HarvestInts {
			for _, b := range HarvestInts[i:] {
				base = append(base, a*b, a+b)
			}
		}
	}
	for _, n := range base {
		for _, m := range []int{n - 1, n, n + 1} {
			if m >= lo && m <= hi {
				set[m] = true
			}
		}
	}
	out := []int{}
	for n := range set {
		out = append(out, n)
	}
	sort.Ints(out)
	return out
}
