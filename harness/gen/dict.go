package gen

import "strings"

// HostileStrings are values and names aimed at the lexer, the SQL quoting, the identifier
// handling and the pattern translation.
var HostileStrings = []string{
	"", " ", "x", "it's", "''", "'", "a'b'c", `\`, `\\`, `a\`, `\'`, `\'; --`, ";", "; DROP TABLE t; --", "--", "-- x", "/*", "*/", "/* c */",
	"$$", "$1", "$tag$x$tag$", "?", "??", "%", "_", "%_", "a%b", "a_b", "\x00", "a\x00b", "\xff", "a\xffb", "\xc3", "\xc3\x28", "\xed\xa0\x80",
	"\n", "a\nb", "\r\n", "\t", "a\tb", "NaN", "nan", "Inf", "-inf", "infinity", "+Inf", "1e999", "-1e999", "0x1p-2", "1_0", "1e5", "1E5", ".5", "5.", "-0", "+5",
	"9223372036854775807", "-9223372036854775808", "9223372036854775808", "18446744073709551616", "18446744073709551620", "-18446744073709551620", "20000000000000000000", "36893488147419103232", "123456789012345678901", "007", "010", "017", "0123", "-010", "0x10", "0b11", "0o17", "1_000", "1.50", "1e-7", "0.1", "-0.001",
	"AND", "and", "And", "OR", "or", "NOT", "not", "TO", "to", "tO", "NULL", "null", "TRUE", "false", "select", "SELECT 1", "a OR 1=1", "1=1", "') OR ('1'='1",
	"\ufffd", "x\ufffdy", "\ufffd*", `b*\\\`, `a?\\\\\`, `*\`, `w*\\`, `x\`, `a\\\`, "-٣", "١٢", "-１", "٣.٥", "-\U0001d7cf", "a-٣", "ünï", "日本語", "üñí çødé", "e\u0301", "\u202eabc", "😀", "a😀b", "\u00a0", "\u2028", "٣", "Ⅷ", "ß", "İ",
	"(", ")", "()", "[", "]", "{", "}", "[a TO b]", ":", "a:b", "=", ">", "<", "<=", ">=", "+", "-", "+a", "-a", "~", "^", "~2", "^2", "a~2", "*", "a*", "*a", "a?b", "/", "//", "/x/", "/a b/", "a/b",
	`/a\\/`, `/C:\\/`, `/x\/y/`, `/a\\\/`, `/[a-z]+\\/`, `/\//`, "x,y", ",", ", ", "a, b", "'x, y'", "x) OR (y", "U&'\\0041'", "E'\\n'", "e'x'", "B'1'", "X'1F'", "N'x'", `"`, `a"b`, `""`,
	"a b", " a", "a ", "  ", "a  b", strings.Repeat("a", 63), strings.Repeat("a", 64), strings.Repeat("a", 65), strings.Repeat("a", 200),
	strings.Repeat("é", 31) + "a", strings.Repeat("é", 32), strings.Repeat("é", 31) + "ab", strings.Repeat("😀", 16), "a" + strings.Repeat("😀", 16),
	"WHERE", "FROM t", "t.a", "a.b", "a\"; DROP", "pg_sleep(10)", "current_user", "1::int", "a::text", "CAST(1 AS int)", "(SELECT 1)", "EXISTS(SELECT 1)",
	"%(b|d)%", "a|b", "(a)", "[a-z]", "a+", "a{2}", `\%`, `\_`, "x_y", "x%y", "100%",
	// long runs of bytes that are no characters (continuation bytes, stray lead bytes, 0xFF)
	strings.Repeat("\x80", 64), strings.Repeat("\x80", 70), strings.Repeat("\xbf", 130), strings.Repeat("\xff", 64), strings.Repeat("\xc3", 65), "a" + strings.Repeat("\x80", 64), strings.Repeat("\x80", 63) + "a",
}

func init() { HostileStrings = append(HostileStrings, RealWorldShapes...) }

// RealWorldShapes are token shapes of everyday data: the kind of text for which somebody adds
// "a small convenience" to a lexer (keep the slash in a CIDR, the colons in a time, the plus in a
// phone number) and thereby changes what a character means in one context only.
var RealWorldShapes = []string{
	"10.0.0.0/8", "192.168.1.1", "192.168.1.1:8080", "10.0.0.0/", "::1", "fe80::1/64", "2001:db8::ff00:42:8329", "2024-01-01", "2024-01-01T10:30:00", "2024-01-01T10:30:00Z", "2024-01-01T10:30:00+01:00",
	"10:30", "10:30:00.123", "now+1d/d", "now-15m", "1d", "-3d", "-5th", "-2024-01-01", "+1a", "+2b", "3.14.15", "v1.2.3", "v1.2.3-rc.1+build.5", "1,000", "1.000,50", "$5", "5$", "50%", "100%", "#tag", "@user", "user@example.com",
	"http://example.com/a?b=c&d=e#f", "https://example.com:8443/x", "example.com/path", "/usr/local/bin", "C:\\dir\\file.txt", "a/b/c", "../x", "~/x", "*.go", "file.tar.gz", "550e8400-e29b-41d4-a716-446655440000", "0xDEADBEEF", "0x1F", "1e+5", "2.5E+3", "1e-5",
	"+1-555-0100", "(555) 0100", "a&&b", "a||b", "a&b", "a|b", "!a", "a!", "R&D", "AT&T", "C++", "C#", "a=b", "a==b", "a!=b", "a<=b", "a=>b", "a->b", "a::b", "a..b", "a...b", "key=value;other=1", "{\"json\":1}", "[1,2]", "<tag>", "</tag>", "&amp;", "a\u200cb", "a\u200db", "a\u00adb",
	"/\\Qa/b\\E/", "/[^/]+/", "/[b/", "/[/", "/a{2,3}/", "/(?i)x/", "/\\d+\\/\\d+/", "/[/]/", "/a|b/", "/^a$/", "/a\\\\/", "/\\//", "/(/", "/x**/", "/(?=x)/", "/b{2,1}/",
	"'x\"y\"z\"w'", "'\"\"\"'", "a\"b\"c\"d", "\"\"\"", "'a'b", "it''s", "rock 'n', roll", "', ", "'', ",
	"\u201ca b\u201d", "\u201c", "\u201d", "\u2018x\u2019", "\u00aba\u00bb",
}

// AsciiPrintable returns every printable ASCII character as a one-character string.
func AsciiPrintable() []string {
	out := []string{}
	for c := 0x20; c < 0x7f; c++ {
		out = append(out, string(rune(c)))
	}
	return out
}

// FuzzDict are the fragments the mutational fuzzer splices into inputs.
var FuzzDict = append(append([]string{}, Sigma...),
	" ", "  ", "\t", "\n", "\r", "\\", "\\\\", "\\ ", "\\:", "\\(", "\\*", "\\\"", "\"", "'", "\"\"", "''", "/", "//", "/a\\/b/", "/a\\\\/", "\\\\/", "\\/",
	"a:b", "a:5", "a:[1 TO 5]", "a:{* TO 5}", "a:[b TO *]", "a:(x OR y)", "a:>5", "a:>=5", "a:<5", "a:<=-5", "a:b*", "a:/r.*/", "a~", "a~2", "a^", "a^1.5",
	"NOT ", " AND ", " OR ", " TO ", "to", "and", "or", "not", "+", "-", "--", "-5", "- 5", "1e5", "NaN", "Inf", ".", "..", "-.", "5.", "0x10", "é", "日", "\xff", "\x00", "\xc3",
	"010", "017", "0x1F", "1_000", "\ufffd", `*\\\`, `?\`, `\\\`, "٣", "-٣", "１", "-１", "18446744073709551616", "18446744073709551620", "-9223372036854775808", "20000000000000000000", "36893488147419103232", "((", "))", "()", "[]", "{}", "[*", "*]", "TO *", ":(", "):", ":[", ":{", "=:", ":=", ":>", ":<", ">=", "<=", "~~", "^^", "~^", "^~", "~-1", "^-1", "^0", "~0",
)

// RepoSeeds are the inputs the repository's own tests and fuzz targets use.
var RepoSeeds = []string{
	"A:B AND C:D", "+foo OR (NOT(B))", "A:bar", "NOT(b:c)", "z:[* TO 10]", "x:[10 TO *] AND NOT(y:[1 TO 5]",
	"(+a:b -c:d) OR (z:[1 TO *] NOT(foo))", `+bbq:"woo yay"`, `-bbq:"woo"`, `(a:b)^10`, `a:foo~`,
	"a", "a:b", "a:5", "a:>22", "a:>=22", "a:<22", "a:<=22", "a:<22 AND b:>33", "a:b*", "a:b?z", "a:[* TO 5]", "a:{* TO 5}", "a:{foo TO bar}",
	"b AND a~", "b AND a~10", "b AND a^", "b AND a^10", "a:/b [c]/", `a:/b "[c]/`, `url:/example.com\/foo\/bar\/.*/`, "a b", "a:b c:d",
	"a AND b", "a OR b", "a:[1 TO 5]", `a:{"ab" TO "az"}`, `a:{2 TO *}`, "NOT b", "a:foo OR NOT b:bar", "(a:foo OR b:bar) AND c:baz",
	"a:(foo OR baz OR bar)", "+a:b", "-a:b", "d:e AND (-a:b AND +f:e)", `a:\(1\+1\)\:2`, `foo\ bar:b`, "a:b^2 AND foo", "foo^4", `"foo bar"^4 AND a:b`,
	"(title:foo OR title:bar)^1.5 AND (body:foo OR body:bar)", "((title:foo)^1.2 OR title:bar) AND (body:foo OR body:bar)", "a:b~2 AND foo", "a:b foo~4",
	"a OR b AND c OR d~ AND NOT +(e:f)^10", "a:>10 AND -b:<=-20", "c:[* to -1] OR d", "a:'b'", "1a:b", `title:"The Right Way" AND go`,
	"(a AND b", "(a AND b))", "a = ", "= b", "() = ()", "a AND", "AND a", "NOT", "NOT()", "+", "+()", "-", "^2", "()^2", "~2", "~", "[ TO 5]", "[* TO ]",
	"[(a OR b) TO *]", "(A:B AND C:(D OR E)) OR (NOT(+a:[* TO]))", "a: b:c", "this is an example",
}
