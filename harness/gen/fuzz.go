package gen

import (
	"math/rand"

	"github.com/grindlemire/go-lucene/verif/mon"
)

// Fuzzer is a seeded, deterministic mutational fuzzer whose feedback is the set of hook-event
// bigrams an execution produced.
type Fuzzer struct {
	R      *rand.Rand
	Corpus []string
	Dict   []string
	MaxLen int
	seen   map[uint32]struct{}
	cur    []uint32
	last   int
}

// NewFuzzer creates a fuzzer over the seed corpus.
func NewFuzzer(r *rand.Rand, seeds []string, dict []string) *Fuzzer {
	return &Fuzzer{R: r, Corpus: append([]string{}, seeds...), Dict: dict, MaxLen: 160, seen: map[uint32]struct{}{}}
}

// Run performs n executions. exec runs one input (the hook sinks must be installed).
func (f *Fuzzer) Run(n int, exec func(in string)) {
	prev := mon.Trace
	defer func() { mon.Trace = prev }()
	mon.Trace = func(ev int) {
		f.cur = append(f.cur, uint32(f.last)<<12^uint32(ev))
		f.last = ev
	}
	// the seeds themselves first
	for _, s := range f.Corpus {
		f.one(s, exec)
	}
	for i := 0; i < n; i++ {
		in := f.Mutate(f.Corpus[f.R.Intn(len(f.Corpus))])
		if f.one(in, exec) && len(f.Corpus) < 4000 {
			f.Corpus = append(f.Corpus, in)
		}
	}
}

func (f *Fuzzer) one(in string, exec func(string)) bool {
	f.cur = f.cur[:0]
	f.last = 0
	exec(in)
	novel := false
	for _, b := range f.cur {
		if _, ok := f.seen[b]; !ok {
			f.seen[b] = struct{}{}
			novel = true
		}
	}
	return novel
}

// Mutate applies 1..4 havoc steps.
func (f *Fuzzer) Mutate(s string) string {
	b := []byte(s)
	steps := 1 + f.R.Intn(4)
	for i := 0; i < steps; i++ {
		b = f.step(b)
	}
	if len(b) > f.MaxLen {
		b = b[:f.MaxLen]
	}
	return string(b)
}

func (f *Fuzzer) step(b []byte) []byte {
	r := f.R
	pos := func() int {
		if len(b) == 0 {
			return 0
		}
		return r.Intn(len(b) + 1)
	}
	switch r.Intn(10) {
	case 0: // bit flip
		if len(b) > 0 {
			i := r.Intn(len(b))
			b[i] ^= 1 << uint(r.Intn(8))
		}
	case 1: // random byte
		if len(b) > 0 {
			b[r.Intn(len(b))] = byte(r.Intn(256))
		}
	case 2: // delete span
		if len(b) > 0 {
			i := r.Intn(len(b))
			n := 1 + r.Intn(minInt(8, len(b)-i))
			b = append(b[:i:i], b[i+n:]...)
		}
	case 3: // duplicate span
		if len(b) > 0 {
			i := r.Intn(len(b))
			n := 1 + r.Intn(minInt(12, len(b)-i))
			span := append([]byte{}, b[i:i+n]...)
			p := pos()
			b = append(b[:p:p], append(span, b[p:]...)...)
		}
	case 4, 5, 6: // dictionary insert
		d := f.Dict[r.Intn(len(f.Dict))]
		p := pos()
		b = append(b[:p:p], append([]byte(d), b[p:]...)...)
	case 7: // dictionary overwrite
		d := f.Dict[r.Intn(len(f.Dict))]
		p := pos()
		end := p + len(d)
		if end > len(b) {
			end = len(b)
		}
		b = append(b[:p:p], append([]byte(d), b[end:]...)...)
	case 8: // splice with another corpus entry
		o := f.Corpus[r.Intn(len(f.Corpus))]
		if len(o) > 0 {
			p := pos()
			q := r.Intn(len(o))
			b = append(b[:p:p], []byte(o[q:])...)
		}
	case 9: // insert a printable or special byte
		specials := []byte(" \t\n\\\"'/()[]{}:=<>+-~^*?.\x00\xff")
		p := pos()
		b = append(b[:p:p], append([]byte{specials[r.Intn(len(specials))]}, b[p:]...)...)
	}
	return b
}

func minInt(a, b int) int {
	if a < b {
		return a
	}
	return b
}
