package gen

import (
	"math/rand"
	"strconv"
	"strings"
)

// RandString draws a string from combinatorial classes of "interesting" text: number-like
// spellings, words with special characters in every position, control and non-ASCII characters,
// lengths around limits. It complements the fixed HostileStrings dictionary.
func RandString(r *rand.Rand) string {
	switch r.Intn(14) {
	case 0:
		return randNumberLike(r)
	case 1: // one special character at the start, the middle or the end of a word
		sp := specials[r.Intn(len(specials))]
		w := words[r.Intn(len(words))]
		switch r.Intn(4) {
		case 0:
			return sp + w
		case 1:
			return w + sp
		case 2:
			return w[:len(w)/2] + sp + w[len(w)/2:]
		}
		return sp + w + sp
	case 2: // runs of backslashes, odd and even, leading / trailing
		n := 1 + r.Intn(5)
		w := words[r.Intn(len(words))]
		switch r.Intn(3) {
		case 0:
			return w + strings.Repeat(`\`, n)
		case 1:
			return strings.Repeat(`\`, n) + w
		}
		return w + strings.Repeat(`\`, n) + "*"
	case 3: // wildcards in every position, escaped and unescaped mixes
		parts := []string{"*", "?", `\*`, `\?`, "a", "b", "_", "%", "."}
		n := 1 + r.Intn(5)
		var b strings.Builder
		for i := 0; i < n; i++ {
			b.WriteString(parts[r.Intn(len(parts))])
		}
		return b.String()
	case 4: // control characters and DEL
		c := string(rune(1 + r.Intn(31)))
		if r.Intn(6) == 0 {
			c = "\x7f"
		}
		return "a" + c + "b"
	case 5: // non-ASCII: replacement char, noncharacters, BOM, combining marks, astral, bidi, NBSP family
		u := []string{"\ufffd", "\ufffe", "\uffff", "\ufeff", "e\u0301", "\U0001F600", "\U000E0001", "\U000F0000", "\u202e", "\u00a0", "\u0085", "\u2028", "\u3000", "\u200b", "\u0130", "\u00df", "\u01c5", "\u0663", "\u0967", "\U0001D7D8", "\u216b"}
		s := u[r.Intn(len(u))]
		switch r.Intn(3) {
		case 0:
			return s
		case 1:
			return "x" + s + "y"
		}
		return s + s
	case 6: // lengths around the identifier limit, ASCII and with a multi-byte character at the edge
		n := 58 + r.Intn(12)
		tails := []string{"", "é", "€", "😀", "a"}
		return strings.Repeat("k", n) + tails[r.Intn(len(tails))]
	case 7: // slash-delimited and regexp-looking text
		bodies := []string{"", "a", `a\/b`, `a\\`, `\\`, `a\\\/`, "a b", "[a-z]+", "x*y?", ".*"}
		return "/" + bodies[r.Intn(len(bodies))] + "/"
	case 8: // keyword-like and syntax-looking text
		k := []string{"AND", "and", "aNd", "OR", "oR", "NOT", "nOT", "TO", "tO", "to:x", "a AND b", "(a)", "[1 TO 2]", "{a TO b}", "a:b", "a:>5", "+a", "-a", "a~2", "a^2", "x OR y"}
		return k[r.Intn(len(k))]
	case 9: // SQL-looking text
		q := []string{"'", "''", "';--", "' OR '1'='1", `\'`, "$$", "$1", "?", "??", "/*x*/", "--x", ";", "\"", "a\"b", "U&'x'", "E'\\n'", "%", "_", "x,y", ", ", ")", "(", "NULL", "1;2"}
		return q[r.Intn(len(q))]
	case 10: // whitespace in every form
		w := []string{" ", "  ", "\t", "\n", "\r", "\r\n", " a", "a ", "a  b", "a\tb", "a\nb", "\v", "\f"}
		return w[r.Intn(len(w))]
	case 11: // a run of multi-byte characters, then something the lexer rejects or must delimit
		runs := []string{"\u00e9", "\u044f", "\u6f22", "\U0001F600", "\u30bf\u30a4"}
		tails := []string{" %", "!", "\u3001x", " \"abc", " /ab", ",", "\uff01", ";", "", " x"}
		return strings.Repeat(runs[r.Intn(len(runs))], 4+r.Intn(40)) + tails[r.Intn(len(tails))]
	case 12: // letters whose upper- or lower-case form has a different byte length, next to keywords
		l := []string{"\u0131", "\u017f", "\u1fbe", "\u2c65", "\u2c66", "\u0250", "\u0251", "\u026b", "\u0130", "\u212a", "\u00df", "\u0149", "\ufb01"}
		c := l[r.Intn(len(l))]
		forms := []string{c, "a" + c, c + "d", c + " OR b", "a:" + c + " AND b", c + ":1 OR x", "x " + c + " TO", c + c + c + " NOT y"}
		return forms[r.Intn(len(forms))]
	}
	return HostileStrings[r.Intn(len(HostileStrings))]
}

var specials = []string{`\`, "*", "?", "/", "-", "+", ".", ":", "=", "<", ">", "~", "^", "(", ")", "[", "]", "{", "}", "!", ",", ";", "%", "_", "$", "#", "@", "&", "|", "`", "'", " "}
var words = []string{"a", "ab", "foo", "x1", "Zz", "\u00e9", "\u65e5\u672c", "a_b"}

// randNumberLike draws spellings that are, or look like, numbers.
func randNumberLike(r *rand.Rand) string {
	switch r.Intn(11) {
	case 10: // edges of float32 / int32 / float64 / int64 precision, as integers and as decimals
		e := []string{"16777217", "2147483648", "4294967297", "9007199254740991", "9007199254740993", "9007199254740995", "-9007199254740993", "1234567890123456789", "9.5e18", "9500000000000000000.0", "9.3e18", "-9.5e18", "9223372036854775808.0", "1e19", "9007199254740993.0", "16777217.5", "1234.56789", "3.14159265", "100000.00001", "36028797018963969"}
		return e[r.Intn(len(e))]
	case 0: // leading zeros
		return strings.Repeat("0", 1+r.Intn(3)) + strconv.Itoa(r.Intn(1000))
	case 1: // around the int64 and uint64 limits
		e := []string{"9223372036854775806", "9223372036854775807", "9223372036854775808", "-9223372036854775808", "-9223372036854775809", "18446744073709551615", "18446744073709551616", "18446744073709551620", "36893488147419103232", "99999999999999999999999"}
		return e[r.Intn(len(e))]
	case 2: // exponents
		e := []string{"1e5", "1E5", "1e-5", "2e-5", "1e21", "1e22", "-1e22", "1.5e300", "1e-320", "1e999", "1e+5", "5e", "e5", "1e5.5"}
		return e[r.Intn(len(e))]
	case 3: // decimal point forms
		e := []string{".5", "5.", "0.5", "-.5", "-0.0", "0.0", "-0", "1.50", "1.0", "00.5", "1..5", "1.2.3", "0.00001", "0.1", "123456789.123456789"}
		return e[r.Intn(len(e))]
	case 4: // other bases and separators
		e := []string{"0x10", "0X1F", "0b101", "0o17", "1_000", "0x1p-2", "0x", "1_", "_1", "0b", "0_8"}
		return e[r.Intn(len(e))]
	case 5: // signs
		e := []string{"+5", "-5", "--5", "+-5", "-+5", "- 5", "5-", "5-3", "-5-"}
		return e[r.Intn(len(e))]
	case 6: // non-ASCII digits
		e := []string{"\u0663", "-\u0663", "\u0661\u0662\u0663", "\uff11\uff12", "-\uff11", "\u0967", "\U0001D7D8", "-\U0001D7D8", "\u0663.\u0665", "1\u0663"}
		return e[r.Intn(len(e))]
	case 7: // special float words
		e := []string{"NaN", "nan", "Inf", "+Inf", "-Inf", "inf", "Infinity", "-infinity", "infinit"}
		return e[r.Intn(len(e))]
	case 8:
		return strconv.Itoa(r.Intn(2000000) - 1000000)
	}
	return strconv.FormatFloat((r.Float64()-0.5)*float64(int64(1)<<uint(r.Intn(60))), 'f', r.Intn(8), 64)
}

// ValueDict returns the fixed dictionary plus n seeded random strings.
func ValueDict(r *rand.Rand, n int) []string {
	out := append([]string{}, HostileStrings...)
	// one string of every interesting length (powers of two ± 1, and next to every integer
	// constant of the code under test, their sums and products), plain and full of apostrophes
	for _, l := range SizesWithProducts([]int{1, 2, 3, 7, 8, 9, 15, 16, 17, 31, 32, 33, 62, 63, 64, 65, 124, 125, 126, 127, 128, 129, 255, 256, 257, 511, 512, 513, 1023, 1024, 1025, 4095, 4096, 4097}, 1, 5000) {
		if l <= 300 || r.Intn(12) == 0 {
			out = append(out, strings.Repeat("x", l))
		}
		if l >= 2 && l <= 300 {
			out = append(out, strings.Repeat("'", l/2)+strings.Repeat("z", l-2*(l/2)))
		}
	}
	for i := 0; i < n; i++ {
		out = append(out, RandString(r))
	}
	return out
}
