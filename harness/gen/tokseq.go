// Package gen holds the shared workload generators.
package gen

import "strings"

// Sigma is the token alphabet: at least one spelling per token type and value kind.
var Sigma = []string{
	"a", "b", "5", "-3", "1.5", `"q s"`, "'x'", "w*", "*", "?", "/r/", ":", "=", ">", "<", "+", "-", "~", "^",
	"NOT", "AND", "OR", "TO", "(", ")", "[", "]", "{", "}",
}

// SigmaSmall is a 12-symbol sub-alphabet for longer exhaustive sequences.
var SigmaSmall = []string{"a", "5", "*", ":", "-", "~", "NOT", "AND", "OR", "(", ")", "TO"}

// SigmaRange concentrates on range and comparison syntax.
var SigmaRange = []string{"a", "5", "*", `"s"`, ":", ">", "=", "TO", "[", "]", "{", "}", "("}

// SigmaTiny is a bracket/prefix alphabet for long exhaustive sequences (grouping and field syntax).
var SigmaTiny = []string{"a", "(", ")", ":", "NOT", "+"}

// SigmaAmount concentrates on the suffix operators and what may follow them: amounts that are
// zero, fractional, equal to the defaults, padded, negative, exponent-spelled, quoted or words.
var SigmaAmount = []string{"a", `"q s"`, "f", ":", "~", "^", "0", "0.5", "1", "00", "-1", "2.5", "1e3", `"2"`, "inf", "(", ")", "AND"}

// Fragments are well-formed pieces for random longer sequences.
var Fragments = append(append([]string{}, Sigma...), "a:b", "a : 5", "f:[1 TO 5]", "f:{* TO b}", "f:(x OR y)", "f:(x OR (y OR z))", "f:(x OR x)", "f:(x OR y OR z*)", "a:>5", "a:<=2",
	"( a OR b )", "(+a):b", "( a ):b", "a:( b )", "NOT a", "+ a", "- a", "a ~ 2", "a ^ 1.5", "a AND b", "a OR b", `"p q"`, "w*", "/r e/", `/a\\/`, "5:x", "-٣", "18446744073709551616", "18446744073709551620", "-18446744073709551620", "20000000000000000000", "-9223372036854775808", "9223372036854775807", "a:99999999999999999999", "a~18446744073709551620", "a:(b AND c)", "a:(NOT b)", "a:b:c", "a:(b:c)",
	"010", "a:017", "a:[010 TO 020]", "a:(b:c:d)", "k:>(a:b:c)", "NOT a:b:c", "+a:b:c", "f:(NOT (a b):c*)", "a:((x OR y):z)", "f:(u:v:(1 OR 2))", "a:b:c~", "(a b):c^2",
	"a:b:>5", "(a OR b):>5", "(a b):<=3", "a:b:[1 TO 2]", "(a OR b):{1 TO 5}", "(NOT a):[* TO 10]", "a:[1 TO 2]:<7", "(a):b", "(a):>5", "(a):[1 TO 2]", `a:["*" TO 5]`, `a:[\* TO 5]`, `a:{"b?" TO "/x/"}`, `b*\\\`, `a:b*\\\`,
	"a~0", "a~0.5", "a~0.8", `"q s"~0.9`, "a~1", "a~00", "f:b~0", "(a OR b)~0", "a^0", "a^0.5", "a^1", "a^1.0", "a^1e3", `a^"2"`, "a^inf", "a~-1", "a^-2", "a~1.5", "f:5~0.5", "7~0.5", `f:("" OR b)`, `f:""`, `""`,
	"'x'b", "'x y'AND'z'", `"p"q`, `/r/s`, "f:'x'OR g:z")

// TokSeqs is the space of all token sequences of length 1..L over an alphabet, joined by Sep.
type TokSeqs struct {
	Alpha []string
	L     int
	Sep   string
	sizes []int // sizes[k] = number of sequences of length exactly k+1
}

// NewTokSeqs builds the space.
func NewTokSeqs(alpha []string, l int) *TokSeqs {
	t := &TokSeqs{Alpha: alpha, L: l, Sep: " "}
	n := 1
	for k := 0; k < l; k++ {
		n *= len(alpha)
		t.sizes = append(t.sizes, n)
	}
	return t
}

// Size is the number of sequences.
func (t *TokSeqs) Size() int {
	s := 0
	for _, n := range t.sizes {
		s += n
	}
	return s
}

// Tokens returns sequence number i as its token spellings.
func (t *TokSeqs) Tokens(i int) []string {
	k := 0
	for i >= t.sizes[k] {
		i -= t.sizes[k]
		k++
	}
	out := make([]string, k+1)
	for j := k; j >= 0; j-- {
		out[j] = t.Alpha[i%len(t.Alpha)]
		i /= len(t.Alpha)
	}
	return out
}

// At returns sequence number i as text.
func (t *TokSeqs) At(i int) string { return strings.Join(t.Tokens(i), t.Sep) }
