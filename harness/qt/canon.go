package qt

import (
	"fmt"
	"strconv"
	"strings"
)

// Canon is a textual normal form of the tree this node denotes, written without calling any
// constructor of the library: the same form is computed from a parsed expression by
// oracle.CanonExpr, so the two can be compared even if a constructor itself is what went wrong.
func (n *Node) Canon() string {
	switch n.Kind {
	case KTerm:
		return n.Val.Canon()
	case KField:
		op := "EQUALS"
		if n.Val.Kind == VWild || n.Val.Kind == VRegexp || n.Val.Kind == VOpen {
			op = "LIKE"
		}
		return op + "(" + canonField(n.Field) + "," + n.Val.Canon() + ")"
	case KCmp:
		op := map[string]string{">": "GREATER", ">=": "GREATER_EQ", "<": "LESS", "<=": "LESS_EQ"}[n.Cmp]
		return op + "(" + canonField(n.Field) + "," + n.Val.Canon() + ")"
	case KRange:
		return fmt.Sprintf("RANGE(%s,%s,%s,%v)", canonField(n.Field), n.Lo.Canon(), n.Hi.Canon(), n.Incl)
	case KList:
		vs := []string{}
		for _, v := range n.Vals {
			vs = append(vs, v.Canon())
		}
		return "IN(" + canonField(n.Field) + ",LIST(" + strings.Join(vs, ",") + "))"
	case KAnd:
		return "AND(" + n.Kids[0].Canon() + "," + n.Kids[1].Canon() + ")"
	case KOr:
		return "OR(" + n.Kids[0].Canon() + "," + n.Kids[1].Canon() + ")"
	case KNot:
		return "NOT(" + n.Kids[0].Canon() + ")"
	case KMust:
		return "MUST(" + n.Kids[0].Canon() + ")"
	case KMustNot:
		return "MUST_NOT(" + n.Kids[0].Canon() + ")"
	case KFuzzy:
		return "FUZZY(" + n.Kids[0].Canon() + "," + strconv.Itoa(n.Dist) + ")"
	case KBoost:
		return "BOOST(" + n.Kids[0].Canon() + "," + strconv.FormatFloat(n.Power, 'g', -1, 64) + ")"
	case KGroup:
		if vals, ok := plainOrLeaves(n.Kids[0]); ok && len(vals) > 1 {
			vs := []string{}
			for _, v := range vals {
				vs = append(vs, v.Canon())
			}
			return "IN(" + canonField(n.Field) + ",LIST(" + strings.Join(vs, ",") + "))"
		}
		k := n.Kids[0]
		if k.Kind == KTerm && (k.Val.Kind == VWild || k.Val.Kind == VRegexp) {
			return "LIKE(" + canonField(n.Field) + "," + k.Val.Canon() + ")"
		}
		return "EQUALS(" + canonField(n.Field) + "," + k.Canon() + ")"
	}
	return "?"
}

func canonField(v Value) string {
	if v.IsNum() {
		return v.Canon()
	}
	return "col:" + strconv.Quote(v.S)
}

// Canon of a value: kind and payload.
func (v Value) Canon() string {
	switch v.Kind {
	case VInt:
		return "i:" + strconv.Itoa(v.I)
	case VFloat:
		return "f:" + strconv.FormatFloat(v.F, 'g', -1, 64)
	case VWild, VOpen:
		return "w:" + strconv.Quote(v.S)
	case VRegexp:
		return "r:" + strconv.Quote(v.S)
	}
	return "s:" + strconv.Quote(v.S)
}
