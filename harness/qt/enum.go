package qt

import (
	"math/rand"
	"strconv"
	"strings"
)

// FullLeaves is the leaf alphabet covering every leaf form of the documented grammar.
func FullLeaves() []*Node {
	return []*Node{
		T(Word("a")), T(Int(5)), T(Int(-3)), T(Float("1.5")), T(Phrase("q s")), T(Wild("w*")), T(Regexp("/r+/")),
		F("f", Word("b")), F("f", Int(7)), F("f", Int(-2)), F("f", Float("2.5")), F("f", Phrase("p q")), F("f", Wild("x?")), F("f", Regexp("/re/")),
		Cmp("n", ">", Int(4)), Cmp("n", ">=", Int(4)), Cmp("n", "<", Float("0.5")), Cmp("n", "<=", Int(-4)), Cmp("s", ">", Phrase("m m")),
		Range("n", Int(1), Int(5), true), Range("n", Int(1), Int(5), false), Range("n", Open(), Int(5), true),
		Range("n", Int(2), Open(), false), Range("s", Word("aa"), Word("zz"), true), Range("n", Float("1.5"), Float("2.5"), true),
		List("s", Word("x"), Word("y")), List("n", Int(1), Int(2), Phrase("z z")),
		// repeated values and equal bounds
		List("s", Word("x"), Word("x")), Range("n", Int(5), Int(5), true), List("s", Word("p"), Word("q"), Int(3), Phrase("r s")),
		// field groups: an arbitrary expression as the value of a field
		Group("g", Or(Or(T(Word("x")), T(Word("y"))), T(Wild("z*")))), Group("g", And(T(Word("x")), T(Int(2)))), Group("g", Not(T(Word("x")))),
		Group("g", Or(T(Word("x")), Or(T(Word("y")), T(Int(3))))), Group("g", Or(T(Word("x")), F("h", Word("y")))), Group("g", Jux(T(Word("x")), MustNot(T(Word("y"))))),
		Group("g", T(Phrase("one value"))),
		// regular expressions with escapes, numeric field names
		F("f", Regexp(`/C:\\/`)), T(Regexp(`/a\/b/`)), FV(Int(5), Wild("c*")), FV(Float("1.5"), Word("x")),
		// number spellings: leading zeros are decimal, not octal
		F("f", IntText("010")), T(IntText("0017")), Range("n", IntText("010"), IntText("020"), true), F("f", IntText("-010")),
	}
}

// ExtraLeaves are rarer leaf spellings: = instead of :, quoted and escaped field names,
// single-quoted phrases, patterns as range bounds and comparison values, nested groups.
func ExtraLeaves() []*Node {
	sq := Value{Kind: VPhrase, S: "'x y'", Text: "'x y'"} // a single-quoted phrase keeps its quotes
	return []*Node{
		// field names that begin with a digit (a sign in front of them is a prefix operator), and
		// words that begin with a minus and a digit but are no numbers
		F("1a", Word("b")), Range("2b", Int(1), Int(5), true), List("3c", Int(1), Int(2)), Cmp("4d", ">", Int(5)), F("5e", Wild("w*")),
		T(Word("-\u0663")), F("a", Word("-\uff15")), Range("a", Word("-\u0663"), Int(5), true), T(Word("-3d")), F("a", Word("-5th")), T(Word("-2024-01-01")),
		{Kind: KField, Field: Word("f"), Val: Word("b"), EqSign: true},
		{Kind: KField, Field: Word("f"), Val: Int(-7), EqSign: true},
		FV(Phrase("a field"), Word("v")), FV(Escaped("a field"), Int(3)), FV(Wild("w*"), Word("v")),
		{Kind: KRange, Field: Phrase("r f"), Lo: Int(1), Hi: Open(), Incl: true},
		Range("s", Wild("a*"), Regexp("/z/"), true), Range("s", Phrase("a b"), Escaped("c d"), false),
		Cmp("n", ">", Wild("w*")), Cmp("s", "<=", Escaped("x:y")),
		T(Escaped("a b")), F("f", Escaped("x:y")), T(sq), F("f", sq),
		Group("g", Group("h", Or(T(Word("x")), T(Wild("y*"))))), Group("g", Must(T(Word("x")))), Group("g", FuzzyN(T(Word("x")), 2)),
		Group("g", Range("n", Int(1), Int(5), true)), Group("g", And(F("h", Word("x")), Not(T(Int(2))))),
		List("s", Escaped("a b"), Phrase("c"), Float("1.5")),
		// unlike brackets: both spellings are exclusive ranges
		MixedRange("n", Int(1), Int(5), 1), MixedRange("n", Int(1), Int(5), 2), MixedRange("s", Word("aa"), Open(), 1), MixedRange("n", Open(), Float("2.5"), 2),
	}
}

// MixedRange is an exclusive range written with unlike brackets (1: [ … }, 2: { … ]).
func MixedRange(field string, lo, hi Value, mixed int) *Node {
	n := Range(field, lo, hi, false)
	n.Mixed = mixed
	return n
}

// QuickLeaves is a representative sub-alphabet.
func QuickLeaves() []*Node {
	return []*Node{
		T(Word("a")), T(Int(5)), T(Phrase("q s")),
		F("f", Word("b")), F("f", Wild("x*")),
		Cmp("n", ">=", Int(4)), Range("n", Int(1), Int(5), true), List("s", Word("x"), Word("y")),
		Group("g", Or(Or(T(Word("x")), T(Word("y"))), T(Wild("z*")))), List("s", Word("x"), Word("x")),
	}
}

// UnaryOps are the seven unary constructors.
var UnaryOps = []func(*Node) *Node{
	Not, Must, MustNot, Fuzzy, func(n *Node) *Node { return FuzzyN(n, 2) }, Boost, func(n *Node) *Node { return BoostN(n, "3") },
}

// BinaryOps are the explicit binary constructors.
var BinaryOps = []func(a, b *Node) *Node{Or, And}

// Space is an indexable finite set of trees: all trees of depth <= 2 over a leaf alphabet.
type Space struct {
	Leaves []*Node
	D1     []*Node // all trees of depth <= 1
}

// NewSpace builds the depth-2 space over the leaves.
func NewSpace(leaves []*Node) *Space {
	s := &Space{Leaves: leaves}
	s.D1 = append(s.D1, leaves...)
	for _, u := range UnaryOps {
		for _, l := range leaves {
			s.D1 = append(s.D1, u(l))
		}
	}
	for _, b := range BinaryOps {
		for _, l := range leaves {
			for _, r := range leaves {
				s.D1 = append(s.D1, b(l, r))
			}
		}
	}
	return s
}

// Size is the number of trees in the space (depth <= 2; depth-1 trees also appear via the
// binary block, which is harmless).
func (s *Space) Size() int {
	n := len(s.D1)
	return n + len(UnaryOps)*n + len(BinaryOps)*n*n
}

// At returns tree number i. The returned tree shares sub-trees with others: Clone before mutating.
func (s *Space) At(i int) *Node {
	n := len(s.D1)
	if i < n {
		return s.D1[i]
	}
	i -= n
	if i < len(UnaryOps)*n {
		return UnaryOps[i/n](s.D1[i%n])
	}
	i -= len(UnaryOps) * n
	b := i / (n * n)
	i %= n * n
	return BinaryOps[b](s.D1[i/n], s.D1[i%n])
}

// RandomTree draws a tree of at most the given depth over the leaves.
func RandomTree(r *rand.Rand, leaves []*Node, depth int) *Node {
	if depth <= 0 || r.Intn(5) == 0 {
		if r.Intn(10) == 0 {
			return RandomGroup(r, 1+r.Intn(3))
		}
		return leaves[r.Intn(len(leaves))]
	}
	if r.Intn(3) == 0 {
		return RandomUnary(r, RandomTree(r, leaves, depth-1))
	}
	return BinaryOps[r.Intn(2)](RandomTree(r, leaves, depth-1), RandomTree(r, leaves, depth-1))
}

// FuzzyAmounts and BoostAmounts are the explicit amounts random trees use (0 and 1 included: an
// amount equal to a default or to "nothing" must still leave its operator in the tree).
var FuzzyAmounts = []int{0, 1, 2, 3, 10}
var BoostAmounts = []string{"0.5", "1", "2", "3", "2.5", "10", "1.0"}

// RandomUnary applies a seeded unary operator, with a seeded amount for ~n / ^n.
func RandomUnary(r *rand.Rand, n *Node) *Node {
	switch r.Intn(9) {
	case 0:
		return Not(n)
	case 1:
		return Must(n)
	case 2:
		return MustNot(n)
	case 3:
		return Fuzzy(n)
	case 4, 5:
		return FuzzyN(n, FuzzyAmounts[r.Intn(len(FuzzyAmounts))])
	case 6:
		return Boost(n)
	}
	return BoostN(n, BoostAmounts[r.Intn(len(BoostAmounts))])
}

// AndNodes lists the AND nodes of a tree in pre-order.
func AndNodes(n *Node) []*Node {
	out := []*Node{}
	n.Walk(func(x *Node) {
		if x.Kind == KAnd {
			out = append(out, x)
		}
	})
	return out
}

// EscapedOK reports whether s may be written as a fully escaped bare word and still be a
// plain string value: non-empty, not numeric text, not a keyword.
func EscapedOK(s string) bool {
	if s == "" {
		return false
	}
	if _, err := strconv.Atoi(s); err == nil {
		return false
	}
	if _, err := strconv.ParseFloat(s, 64); err == nil {
		return false
	}
	switch strings.ToUpper(s) {
	case "AND", "OR", "NOT", "TO":
		return false
	}
	return true
}

// HostileLeaves builds n leaves whose values (and, when withFields is set, field names) come
// from a dictionary of hostile strings, quoted or fully escaped.
func HostileLeaves(r *rand.Rand, dict []string, n int, withFields bool) []*Node {
	pick := func() Value {
		for {
			h := dict[r.Intn(len(dict))]
			if strings.Contains(h, `"`) {
				continue
			}
			if r.Intn(3) == 0 && EscapedOK(h) {
				return Escaped(h)
			}
			return Phrase(h)
		}
	}
	out := []*Node{}
	for len(out) < n {
		v := pick()
		switch r.Intn(7) {
		case 0:
			out = append(out, T(v))
		case 1:
			out = append(out, F("f", v))
		case 2:
			out = append(out, Range("f", v, pick(), r.Intn(2) == 0))
		case 3:
			out = append(out, List("f", v, pick(), Int(r.Intn(9))))
		case 4:
			out = append(out, Cmp("f", []string{">", ">=", "<", "<="}[r.Intn(4)], v))
		case 5:
			out = append(out, Group("g", Or(T(v), Not(T(pick())))))
		case 6:
			if !withFields {
				out = append(out, F("f", v))
				break
			}
			// a hostile field name under every leaf kind, not just equality
			var l *Node
			switch r.Intn(9) {
			case 0:
				l = F("f", pick())
			case 1:
				l = Range("f", Int(r.Intn(20)-5), Int(20+r.Intn(80)), r.Intn(2) == 0)
			case 2:
				l = Range("f", Open(), Float("2.5"), r.Intn(2) == 0)
			case 3:
				l = Range("f", Int(r.Intn(9)), Open(), r.Intn(2) == 0)
			case 4:
				l = Range("f", Word("aa"), pick(), true)
			case 5:
				l = Cmp("f", []string{">", ">=", "<", "<="}[r.Intn(4)], Int(r.Intn(50)))
			case 6:
				l = List("f", Word("x"), pick(), Int(r.Intn(9)))
			case 7:
				l = F("f", Wild("w*"+"?"))
			case 8:
				l = F("f", Regexp("/r.e/"))
			}
			l.Field = v
			out = append(out, l)
		}
	}
	return out
}

// RandomGroup builds f:( E ) where E is a seeded tree over bare terms: OR chains (which become
// value lists when every member is a plain value) mixed with AND, NOT, prefixes and ~ / ^ in any
// member position.
func RandomGroup(r *rand.Rand, depth int) *Node {
	terms := []*Node{T(Word("x")), T(Word("y")), T(Word("z")), T(Int(3)), T(Phrase("p q")), T(Wild("w*")), T(Float("1.5")), T(Word("x"))}
	var sub func(d int) *Node
	sub = func(d int) *Node {
		if d <= 0 || r.Intn(3) == 0 {
			return terms[r.Intn(len(terms))]
		}
		switch r.Intn(10) {
		case 0, 1, 2, 3, 4:
			return Or(sub(d-1), sub(d-1))
		case 5:
			return And(sub(d-1), sub(d-1))
		case 6:
			return RandomUnary(r, terms[r.Intn(len(terms))])
		case 7:
			return Not(sub(d - 1))
		case 8:
			return FuzzyN(terms[r.Intn(len(terms))], FuzzyAmounts[r.Intn(len(FuzzyAmounts))])
		}
		return Boost(terms[r.Intn(len(terms))])
	}
	fields := []string{"g", "s", "f"}
	return Group(fields[r.Intn(len(fields))], sub(depth))
}

// RelationTrees are trees whose parts are related to each other: two clauses on the same field
// (every pair of leaf forms, with equal and with different values), a value spelled like a field
// name of the same query, value lists whose members are all equal, bounds in descending order,
// the same clause twice.
func RelationTrees() []*Node {
	forms := func(f string, v, w Value) []*Node {
		return []*Node{
			F(f, v), Cmp(f, ">", v), Cmp(f, ">=", v), Cmp(f, "<", w), Cmp(f, "<=", w),
			Range(f, v, Open(), true), Range(f, Open(), w, false), Range(f, v, w, true), Range(f, w, v, false), Range(f, v, v, true),
			List(f, v, w), List(f, v, v), List(f, v, v, v), List(f, v, w, v), List(f, w, v, v),
		}
	}
	out := []*Node{}
	type vw struct{ v, w Value }
	for _, p := range []vw{{Int(1), Int(5)}, {Float("1.5"), Int(7)}, {Word("b"), Word("d")}, {Phrase("x y"), Phrase("x y")}, {Int(1), Phrase("1")}, {Float("2.5"), Phrase("2.5")}} {
		fs := forms("a", p.v, p.w)
		for _, x := range fs {
			for _, y := range fs {
				out = append(out, And(x.Clone(), y.Clone()), Or(x.Clone(), y.Clone()))
			}
			out = append(out, x.Clone(), Not(x.Clone()), And(F("x", Word("y")), Not(BoostN(And(x.Clone(), fs[4].Clone()), "2"))))
		}
	}
	a, b := Word("a"), Word("b")
	out = append(out,
		F("a", a), List("a", a, b), List("a", b, a), And(F("a", b), F("b", Int(1))), Or(F("a", b), F("b", a)), Range("a", a, b, true), Cmp("a", ">", a), FV(Phrase("a b"), Phrase("a b")),
		And(F("a", b), F("a", b)), Or(And(F("a", b), F("c", b)), And(F("a", b), F("c", b))), Jux(F("a", b), F("a", b)), And(T(a), T(a)), Or(T(Phrase("p q")), T(Phrase("p q"))),
		Range("a", Int(5), Int(1), true), Range("a", Float("2.5"), Int(-3), false), Range("a", Int(10), Int(2), true), Range("a", Word("z"), Word("b"), true), Not(BoostN(Range("a", Int(10), Int(2), true), "2")),
		Or(List("t", Word("red"), Word("green")), List("t", Word("blue"), Word("black"))), And(F("x", Word("y")), Or(List("i", Int(1), Int(2)), List("i", Int(3), Int(4), Int(5)))),
		And(Group("a", And(T(b), T(Word("c")))), Group("a", Not(T(b)))), Group("t", Or(Group("a", And(T(b), T(Word("c")))), T(Word("z")))), Group("t", Group("a", Not(T(b)))), Group("t", Or(T(Word("z")), Group("a", F("a", b)))),
		Group("a", Or(Or(Fuzzy(T(b)), T(Word("c"))), T(Word("d")))), Group("a", Or(Or(T(b), BoostN(T(Word("c")), "2")), T(Word("d")))), Group("a", Or(Or(Or(T(b), Boost(T(Word("c")))), T(Word("d"))), T(Word("e")))), Not(Group("a", Or(Or(T(b), FuzzyN(T(Word("c")), 2)), T(Word("d"))))),
	)
	return out
}
