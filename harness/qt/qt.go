// Package qt holds the harness' own ground-truth query trees: a tree model that is independent
// of the library, a printer that encodes the documented precedence table, and the translation
// of a tree into the expression the public constructors build for it.
package qt

import (
	"fmt"
	"strconv"
	"strings"
	"unicode/utf8"

	"github.com/grindlemire/go-lucene/pkg/lucene/expr"
)

// VKind is the kind of a term value.
type VKind int

// value kinds
const (
	VWord    VKind = iota // plain word -> string literal
	VInt                  // integer literal
	VFloat                // non-integral float literal
	VPhrase               // "quoted" -> string literal, verbatim
	VWild                 // word with unescaped * or ? -> wildcard
	VRegexp               // /re/ -> regexp (value keeps the slashes)
	VOpen                 // * as an open range end
	VEscaped              // word written with backslashes before special characters -> string literal
)

// Value is one term.
type Value struct {
	Kind VKind
	S    string  // string payload (decoded value for Word/Phrase/Escaped, raw text for Wild/Regexp)
	I    int     // VInt
	F    float64 // VFloat
	Text string  // source spelling, computed by the constructors below
}

// Word makes a plain word value.
func Word(s string) Value { return Value{Kind: VWord, S: s, Text: s} }

// Int makes an integer value.
func Int(i int) Value { return Value{Kind: VInt, I: i, Text: strconv.Itoa(i)} }

// IntText makes an integer value with an explicit spelling (leading zeros, for instance); the
// value is what the documented decimal reading gives.
func IntText(text string) Value {
	i, err := strconv.Atoi(text)
	if err != nil {
		panic("qt.IntText: " + text)
	}
	return Value{Kind: VInt, I: i, Text: text}
}

// Float makes a float value from its spelling.
func Float(text string) Value {
	f, err := strconv.ParseFloat(text, 64)
	if err != nil {
		panic("qt.Float: " + text)
	}
	return Value{Kind: VFloat, F: f, Text: text}
}

// Phrase makes a double-quoted string value (s must not contain a double quote).
func Phrase(s string) Value { return Value{Kind: VPhrase, S: s, Text: `"` + s + `"`} }

// Wild makes a wildcard value.
func Wild(s string) Value { return Value{Kind: VWild, S: s, Text: s} }

// Regexp makes a regexp value; s includes the slashes.
func Regexp(s string) Value { return Value{Kind: VRegexp, S: s, Text: s} }

// Open is the unbounded range end.
func Open() Value { return Value{Kind: VOpen, S: "*", Text: "*"} }

// Escaped makes a string value spelled as a bare word with a backslash before every rune
// that is not a letter, digit or underscore.
func Escaped(s string) Value {
	var b strings.Builder
	for i := 0; i < len(s); {
		r, size := utf8.DecodeRuneInString(s[i:])
		if !(r == '_' || isLetterDigit(r)) {
			b.WriteByte('\\')
		}
		b.WriteString(s[i : i+size]) // raw bytes: invalid UTF-8 stays what it was
		i += size
	}
	return Value{Kind: VEscaped, S: s, Text: b.String()}
}

// IsString reports whether the value is a plain string literal.
func (v Value) IsString() bool { return v.Kind == VWord || v.Kind == VPhrase || v.Kind == VEscaped }

// IsNum reports whether the value is numeric.
func (v Value) IsNum() bool { return v.Kind == VInt || v.Kind == VFloat }

// Expr is the expression the library must produce for this term (not in field position).
func (v Value) Expr() *expr.Expression {
	switch v.Kind {
	case VInt:
		return expr.Lit(v.I)
	case VFloat:
		return expr.Lit(v.F)
	case VWild, VOpen:
		return expr.WILD(v.S)
	case VRegexp:
		return expr.REGEXP(v.S)
	default:
		return expr.Lit(v.S)
	}
}

// Go is the Go value the parameterised renderer must return for this term.
func (v Value) Go() any {
	switch v.Kind {
	case VInt:
		return v.I
	case VFloat:
		return v.F
	case VWild:
		s := strings.ReplaceAll(v.S, "*", "%")
		return strings.ReplaceAll(s, "?", "_")
	default:
		return v.S
	}
}

// Kind of a node.
type Kind int

// node kinds
const (
	KTerm Kind = iota
	KField
	KCmp
	KRange
	KList
	KAnd
	KOr
	KNot
	KMust
	KMustNot
	KFuzzy
	KBoost
	KGroup // field:( E ) with an arbitrary expression as the field's value
)

var kindNames = []string{"term", "field", "cmp", "range", "list", "AND", "OR", "NOT", "MUST", "MUSTNOT", "FUZZY", "BOOST", "GROUP"}

func (k Kind) String() string { return kindNames[k] }

// Node is a query tree node.
type Node struct {
	Kind  Kind
	Field Value   // KField, KCmp, KRange, KList: the field term
	Val   Value   // KTerm, KField, KCmp
	Cmp   string  // KCmp: > >= < <=
	Lo    Value   // KRange
	Hi    Value   // KRange
	Incl  bool    // KRange
	Vals  []Value // KList
	Kids  []*Node // operators
	// KFuzzy / KBoost
	HasArg  bool
	Dist    int
	Power   float64
	ArgText string
	// spelling choices
	Implicit bool // KAnd written as juxtaposition
	EqSign   bool // KField written with = instead of :
	Mixed    int  // KRange with Incl == false written with unlike brackets: 1 = [ … }, 2 = { … ] (both mean exclusive)
}

// constructors

// T is a bare term.
func T(v Value) *Node { return &Node{Kind: KTerm, Val: v} }

// F is field:value.
func F(field string, v Value) *Node { return &Node{Kind: KField, Field: Word(field), Val: v} }

// FV is field:value with an arbitrary field term.
func FV(field Value, v Value) *Node { return &Node{Kind: KField, Field: field, Val: v} }

// Cmp is field:>v and friends.
func Cmp(field string, op string, v Value) *Node {
	return &Node{Kind: KCmp, Field: Word(field), Cmp: op, Val: v}
}

// Range is field:[lo TO hi] or field:{lo TO hi}.
func Range(field string, lo, hi Value, incl bool) *Node {
	return &Node{Kind: KRange, Field: Word(field), Lo: lo, Hi: hi, Incl: incl}
}

// List is field:(v1 OR v2 ...).
func List(field string, vals ...Value) *Node {
	return &Node{Kind: KList, Field: Word(field), Vals: vals}
}

// Group is field:( E ).
func Group(field string, e *Node) *Node {
	return &Node{Kind: KGroup, Field: Word(field), Kids: []*Node{e}}
}

// And, Or, Not, Must, MustNot, Fuzzy, Boost build operator nodes.
func And(a, b *Node) *Node  { return &Node{Kind: KAnd, Kids: []*Node{a, b}} }
func Jux(a, b *Node) *Node  { return &Node{Kind: KAnd, Kids: []*Node{a, b}, Implicit: true} }
func Or(a, b *Node) *Node   { return &Node{Kind: KOr, Kids: []*Node{a, b}} }
func Not(a *Node) *Node     { return &Node{Kind: KNot, Kids: []*Node{a}} }
func Must(a *Node) *Node    { return &Node{Kind: KMust, Kids: []*Node{a}} }
func MustNot(a *Node) *Node { return &Node{Kind: KMustNot, Kids: []*Node{a}} }
func Fuzzy(a *Node) *Node   { return &Node{Kind: KFuzzy, Kids: []*Node{a}, Dist: 1} }
func FuzzyN(a *Node, n int) *Node {
	return &Node{Kind: KFuzzy, Kids: []*Node{a}, HasArg: true, Dist: n, ArgText: strconv.Itoa(n)}
}
func Boost(a *Node) *Node { return &Node{Kind: KBoost, Kids: []*Node{a}, Power: 1.0} }
func BoostN(a *Node, text string) *Node {
	f, err := strconv.ParseFloat(text, 64)
	if err != nil {
		panic(err)
	}
	return &Node{Kind: KBoost, Kids: []*Node{a}, HasArg: true, Power: f, ArgText: text}
}

// IsLeaf reports whether the node has no operator children.
func (n *Node) IsLeaf() bool { return n.Kind <= KList }

// Clone deep-copies a tree.
func (n *Node) Clone() *Node {
	c := *n
	c.Vals = append([]Value(nil), n.Vals...)
	c.Kids = nil
	for _, k := range n.Kids {
		c.Kids = append(c.Kids, k.Clone())
	}
	return &c
}

// Walk visits every node in pre-order.
func (n *Node) Walk(fn func(*Node)) {
	fn(n)
	for _, k := range n.Kids {
		k.Walk(fn)
	}
}

// Size is the number of nodes.
func (n *Node) Size() int {
	s := 0
	n.Walk(func(*Node) { s++ })
	return s
}

// Depth is the height of the tree (a leaf has depth 0).
func (n *Node) Depth() int {
	d := 0
	for _, k := range n.Kids {
		if kd := k.Depth() + 1; kd > d {
			d = kd
		}
	}
	return d
}

// Skeleton is the operator shape without values.
func (n *Node) Skeleton() string {
	switch n.Kind {
	case KTerm:
		return "t" + strconv.Itoa(int(n.Val.Kind))
	case KField:
		return "f" + strconv.Itoa(int(n.Val.Kind))
	case KCmp:
		return "c" + n.Cmp + strconv.Itoa(int(n.Val.Kind))
	case KRange:
		b := "{"
		if n.Incl {
			b = "["
		} else if n.Mixed != 0 {
			b = "m" + strconv.Itoa(n.Mixed)
		}
		return "r" + b + strconv.Itoa(int(n.Lo.Kind)) + strconv.Itoa(int(n.Hi.Kind))
	case KList:
		s := "l"
		for _, v := range n.Vals {
			s += strconv.Itoa(int(v.Kind))
		}
		return s
	}
	parts := []string{}
	for _, k := range n.Kids {
		parts = append(parts, k.Skeleton())
	}
	name := n.Kind.String()
	if n.Kind == KAnd && n.Implicit {
		name = "JUX"
	}
	if n.HasArg {
		name += "#"
	}
	return name + "(" + strings.Join(parts, ",") + ")"
}

// fieldExpr is what the library holds in field position.
func fieldExpr(v Value) any {
	switch v.Kind {
	case VInt:
		return expr.Lit(v.I)
	case VFloat:
		return expr.Lit(v.F)
	default:
		return expr.Lit(expr.Column(v.S))
	}
}

// Expr builds the expected expression through the public constructors.
func (n *Node) Expr() *expr.Expression {
	switch n.Kind {
	case KTerm:
		return n.Val.Expr()
	case KField:
		return expr.Eq(fieldExpr(n.Field), n.Val.Expr())
	case KCmp:
		switch n.Cmp {
		case ">":
			return expr.GREATER(fieldExpr(n.Field), n.Val.Expr())
		case ">=":
			return expr.GREATEREQ(fieldExpr(n.Field), n.Val.Expr())
		case "<":
			return expr.LESS(fieldExpr(n.Field), n.Val.Expr())
		default:
			return expr.LESSEQ(fieldExpr(n.Field), n.Val.Expr())
		}
	case KRange:
		return expr.Rang(fieldExpr(n.Field), n.Lo.Expr(), n.Hi.Expr(), n.Incl)
	case KList:
		vals := []*expr.Expression{}
		for _, v := range n.Vals {
			vals = append(vals, v.Expr())
		}
		return expr.IN(fieldExpr(n.Field), expr.LIST(vals))
	case KAnd:
		return expr.AND(n.Kids[0].Expr(), n.Kids[1].Expr())
	case KOr:
		return expr.OR(n.Kids[0].Expr(), n.Kids[1].Expr())
	case KNot:
		return expr.NOT(n.Kids[0].Expr())
	case KMust:
		return expr.MUST(n.Kids[0].Expr())
	case KMustNot:
		return expr.MUSTNOT(n.Kids[0].Expr())
	case KFuzzy:
		return expr.FUZZY(n.Kids[0].Expr(), n.Dist)
	case KBoost:
		return expr.BOOST(n.Kids[0].Expr(), n.Power)
	case KGroup:
		// an OR-tree of two or more plain values is a value list, anything else is the field's value
		if vals, ok := plainOrLeaves(n.Kids[0]); ok && len(vals) > 1 {
			list := []*expr.Expression{}
			for _, v := range vals {
				list = append(list, v.Expr())
			}
			return expr.IN(fieldExpr(n.Field), expr.LIST(list))
		}
		return expr.Eq(fieldExpr(n.Field), n.Kids[0].Expr())
	}
	panic("qt.Expr: bad kind")
}

// plainOrLeaves returns the in-order leaves of an OR-tree whose leaves are all plain values.
func plainOrLeaves(n *Node) ([]Value, bool) {
	switch n.Kind {
	case KTerm:
		if n.Val.IsString() || n.Val.IsNum() {
			return []Value{n.Val}, true
		}
		return nil, false
	case KOr:
		l, ok1 := plainOrLeaves(n.Kids[0])
		r, ok2 := plainOrLeaves(n.Kids[1])
		return append(l, r...), ok1 && ok2
	}
	return nil, false
}

// ---------------------------------------------------------------------------------------------
// printer

// level is the binding strength of the documented table OR < AND < NOT < ^ < ~ < - < + < leaf.
func level(k Kind) int {
	switch k {
	case KOr:
		return 1
	case KAnd:
		return 2
	case KNot:
		return 3
	case KBoost:
		return 4
	case KFuzzy:
		return 5
	case KMustNot:
		return 6
	case KMust:
		return 7
	default:
		return 8
	}
}

// needParens says whether child must be parenthesised under parent by the table.
// side: 0 = left operand of a binary operator or the operand of a postfix operator,
// 1 = right operand of a binary operator or the operand of a prefix operator.
func needParens(parent, child *Node, side int) bool {
	pl, cl := level(parent.Kind), level(child.Kind)
	switch parent.Kind {
	case KAnd, KOr:
		if side == 0 {
			return cl < pl // left associative: same level on the left needs none
		}
		return cl <= pl
	case KNot, KMust, KMustNot:
		// a prefix operator takes exactly one clause: anything that binds looser, and the
		// same prefix operator again, needs parentheses
		return cl <= pl
	case KFuzzy, KBoost:
		return cl < pl
	}
	return false
}

// Style selects the concrete spelling.
type Style struct {
	FullParens bool                   // parenthesise every operator operand
	Extra      map[*Node]int          // extra redundant parenthesis pairs around these nodes
	WrapAll    int                    // redundant pairs around the whole query
	WrapValue  map[*Node]int          // redundant pairs around the value of a KField/KCmp... (field's value)
	WrapArg    map[*Node]int          // redundant pairs around the amount of a ~ / ^ node
	Tight      bool                   // drop optional spaces
	WS         func() string          // whitespace run generator (nil => single space)
	Lower      func(kw string) string // keyword spelling (nil => upper case)
}

type printer struct {
	st Style
	b  strings.Builder
}

func (p *printer) sp() string {
	if p.st.WS != nil {
		return p.st.WS()
	}
	return " "
}

// optional space: nothing in tight mode
func (p *printer) osp() string {
	if p.st.Tight {
		return ""
	}
	if p.st.WS != nil {
		return p.st.WS()
	}
	return ""
}

func (p *printer) kw(s string) string {
	if p.st.Lower != nil {
		return p.st.Lower(s)
	}
	return s
}

// Print renders the tree as query text.
func Print(n *Node, st Style) string {
	p := &printer{st: st}
	s := p.node(n)
	for i := 0; i < st.WrapAll; i++ {
		s = "(" + p.osp() + s + p.osp() + ")"
	}
	return s
}

func (p *printer) child(parent, c *Node, side int) string {
	s := p.node(c)
	if needParens(parent, c, side) || (p.st.FullParens && !c.IsLeaf()) {
		s = "(" + s + ")"
	}
	return s
}

func (p *printer) node(n *Node) string {
	s := p.bare(n)
	for i := 0; i < p.st.Extra[n]; i++ {
		s = "(" + p.osp() + s + p.osp() + ")"
	}
	return s
}

func (p *printer) value(n *Node, v Value) string {
	s := v.Text
	for i := 0; i < p.st.WrapValue[n]; i++ {
		s = "(" + p.osp() + s + p.osp() + ")"
	}
	return s
}

func startsWithDigit(s string) bool { return len(s) > 0 && s[0] >= '0' && s[0] <= '9' }

func (p *printer) bare(n *Node) string {
	switch n.Kind {
	case KTerm:
		return n.Val.Text
	case KField:
		sep := ":"
		if n.EqSign {
			sep = "="
		}
		return n.Field.Text + p.osp() + sep + p.osp() + p.value(n, n.Val)
	case KCmp:
		// the comparison symbols are separate tokens, optional space may go between them
		op := ""
		for i, c := range n.Cmp {
			if i > 0 {
				op += p.osp()
			}
			op += string(c)
		}
		return n.Field.Text + p.osp() + ":" + p.osp() + op + p.osp() + p.value(n, n.Val)
	case KRange:
		o, c := "{", "}"
		if n.Incl {
			o, c = "[", "]"
		} else if n.Mixed == 1 {
			o, c = "[", "}"
		} else if n.Mixed == 2 {
			o, c = "{", "]"
		}
		return n.Field.Text + p.osp() + ":" + p.osp() + o + p.osp() + n.Lo.Text + p.sp() + p.kw("TO") + p.sp() + n.Hi.Text + p.osp() + c
	case KList:
		parts := []string{}
		for _, v := range n.Vals {
			parts = append(parts, v.Text)
		}
		return n.Field.Text + p.osp() + ":" + p.osp() + "(" + p.osp() + strings.Join(parts, p.sp()+p.kw("OR")+p.sp()) + p.osp() + ")"
	case KAnd:
		l := p.child(n, n.Kids[0], 0)
		r := p.child(n, n.Kids[1], 1)
		if n.Implicit {
			return l + p.sp() + r
		}
		return l + p.sp() + p.kw("AND") + p.sp() + r
	case KOr:
		return p.child(n, n.Kids[0], 0) + p.sp() + p.kw("OR") + p.sp() + p.child(n, n.Kids[1], 1)
	case KNot:
		return p.kw("NOT") + p.sp() + p.child(n, n.Kids[0], 1)
	case KMust:
		return "+" + p.osp() + p.child(n, n.Kids[0], 1)
	case KMustNot:
		c := p.child(n, n.Kids[0], 1)
		if startsWithDigit(c) {
			// "-5" is a negative number by definition: keep the minus a token of its own
			return "-" + p.sp() + c
		}
		return "-" + p.osp() + c
	case KFuzzy, KBoost:
		sym := "~"
		if n.Kind == KBoost {
			sym = "^"
		}
		s := p.child(n, n.Kids[0], 0) + p.osp() + sym
		if n.HasArg {
			arg := n.ArgText
			for i := 0; i < p.st.WrapArg[n]; i++ {
				arg = "(" + p.osp() + arg + p.osp() + ")"
			}
			s += p.osp() + arg
		}
		return s
	case KGroup:
		return n.Field.Text + p.osp() + ":" + p.osp() + "(" + p.osp() + p.node(n.Kids[0]) + p.osp() + ")"
	}
	panic("qt.print: bad kind")
}

// JuxEligible reports whether the AND node n may be written as a juxtaposition under style st:
// the printed left operand must not end in a ~ or ^ without argument, because by the grammar
// E~E the following term would be that operator's argument.
func JuxEligible(n *Node, st Style) bool {
	if n.Kind != KAnd {
		return false
	}
	p := &printer{st: st}
	l := strings.TrimRight(p.child(n, n.Kids[0], 0), " \t\r\n")
	return !strings.HasSuffix(l, "~") && !strings.HasSuffix(l, "^")
}

// String prints with the minimal style (debugging and reports).
func (n *Node) String() string { return Print(n, Style{}) }

func isLetterDigit(r rune) bool {
	return (r >= 'a' && r <= 'z') || (r >= 'A' && r <= 'Z') || (r >= '0' && r <= '9')
}

// Describe gives a structural debug form.
func (n *Node) Describe() string {
	return fmt.Sprintf("%s %q", n.Skeleton(), n.String())
}
